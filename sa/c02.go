package main

import (
	"fmt"
	"regexp"
	"strings"

	"golang.org/x/tools/go/ssa"
)

func init() { register("C02", runC02) }

const (
	AT  = "consensus.(*MidState).ApplyTransaction"
	A2T = "consensus.(*MidState).ApplyV2Transaction"
	MAB = "consensus.(*MidState).ApplyBlock"
	CAB = "consensus.ApplyBlock"
	CRB = "consensus.RevertBlock"
)

const ctxNotEphemeral = "%T2%.%ID%[*].Parent.StateElement.LeafIndex != const:…"
const ctxEphemeral = "%T2%.%ID%[*].Parent.StateElement.LeafIndex == const:…"

func v1Elem(kind, field string) string {
	return "call (consensus.MidState)." + kind + "(%MS%, {consensus.V1TransactionSupplement}, %T1%." + field + "[*].ParentID)"
}

func c02Table() []GuardReq {
	var t []GuardReq
	add := func(r GuardReq) { t = append(t, r) }
	// --- in-block spent set consulted (every element kind x transaction version) ---
	for _, f := range []string{"SiacoinInputs", "SiafundInputs", "FileContractRevisions", "StorageProofs"} {
		add(req("v1-spent-set:"+f, VT, "call (consensus.MidState).spent(%MS%, %T1%."+f+"[*].ParentID)#1", opT, "", "a second use inside the block (any transaction version) is rejected: the MidState's spent set is consulted for every v1 "+f))
	}
	for _, f := range []string{"SiacoinInputs", "SiafundInputs", "FileContractRevisions", "FileContractResolutions"} {
		add(req("v2-spent-set:"+f, V2T, "call (consensus.MidState).spent(%MS%, %T2%."+f+"[*].Parent.ID)#1", opT, "", "a second use inside the block is rejected: the MidState's spent set is consulted for every v2 "+f))
	}
	// --- the referenced element must exist (v1: lookup in block-created elements or the supplement) ---
	add(req("v1-exists:SiacoinInputs", VT, v1Elem("siacoinElement", "SiacoinInputs")+"#1", opF, "", "never-created outputs cannot be spent"))
	add(req("v1-exists:SiafundInputs", VT, v1Elem("siafundElement", "SiafundInputs")+"#1", opF, "", "never-created outputs cannot be spent"))
	add(req("v1-exists:FileContractRevisions", VT, v1Elem("fileContractElement", "FileContractRevisions")+"#1", opF, "", "a contract that does not exist cannot be revised"))
	add(req("v1-exists:StorageProofs", VT, v1Elem("fileContractElement", "StorageProofs")+"#1", opF, "", "a contract that does not exist cannot be proven"))
	// --- intra-transaction duplicates ---
	for _, f := range []string{"SiacoinInputs", "SiafundInputs", "FileContractRevisions"} {
		add(req("v1-intra-txn:"+f, VT, "ok:make[%T1%."+f+"[*].ParentID]", opT, "", "two uses of one parent inside a v1 transaction are rejected (signature map insert fails)"))
	}
	add(req("v1-intra-txn:StorageProofs", VT, "%T1%.StorageProofs[*].ParentID", opEQ, "%T1%.StorageProofs[*].ParentID", "two storage proofs for one contract inside a v1 transaction are rejected"))
	add(req("v2-intra-txn:SiacoinInputs", V2T, "ok:make[%T2%.SiacoinInputs[*].Parent.ID]", opT, "", "two uses of one parent inside a v2 transaction are rejected"))
	add(req("v2-intra-txn:SiafundInputs", V2T, "ok:make[%T2%.SiafundInputs[*].Parent.ID]", opT, "", "two uses of one parent inside a v2 transaction are rejected"))
	r := req("v2-intra-txn:FileContractRevisions", V2T, "ok:make[%T2%.FileContractRevisions[*].Parent.ID]", opT, "", "a revision parent already revised or already resolved earlier in the same transaction is rejected (two maps)")
	r.MinHits = 2
	add(r)
	r = req("v2-intra-txn:FileContractResolutions", V2T, "ok:make[%T2%.FileContractResolutions[*].Parent.ID]", opT, "", "a resolution parent already revised or already resolved earlier in the same transaction is rejected (two maps)")
	r.MinHits = 2
	add(r)
	// --- accumulator liveness (v2 parents carried in the transaction) ---
	add(req("v2-live:SiacoinInputs", V2T, "call (consensus.ElementAccumulator).containsLeaf(%ST%.Elements, call consensus.siacoinLeaf(const:false, %T2%.SiacoinInputs[*].Parent))", opF, "", "a v2 siacoin parent must be an unspent leaf of the base accumulator", ctxNotEphemeral))
	add(req("v2-live:SiafundInputs", V2T, "call (consensus.ElementAccumulator).containsLeaf(%ST%.Elements, call consensus.siafundLeaf(const:false, %T2%.SiafundInputs[*].Parent))", opF, "", "a v2 siafund parent must be an unspent leaf of the base accumulator", ctxNotEphemeral))
	add(req("v2-live:FileContractRevisions", V2T, "call (consensus.ElementAccumulator).containsLeaf(%ST%.Elements, call consensus.v2FileContractLeaf(const:false, nil, %T2%.FileContractRevisions[*].Parent))", opF, "", "a revised v2 contract must be an unresolved leaf"))
	add(req("v2-live:FileContractResolutions", V2T, "call (consensus.ElementAccumulator).containsLeaf(%ST%.Elements, call consensus.v2FileContractLeaf(const:false, nil, %T2%.FileContractResolutions[*].Parent))", opF, "", "a resolved v2 contract must be an unresolved leaf"))
	// --- ephemeral parents must have been created earlier in this block ---
	add(req("v2-ephemeral-created:SiacoinInputs", V2T, "%MS%.sces[%MS%.elements[%T2%.SiacoinInputs[*].Parent.ID]].Created", opF, "", "an ephemeral siacoin parent must have been created earlier in the block", ctxEphemeral))
	add(req("v2-ephemeral-known:SiacoinInputs", V2T, "ok:%MS%.elements[%T2%.SiacoinInputs[*].Parent.ID]", opF, "", "an ephemeral siacoin parent must be known to the MidState", ctxEphemeral))
	add(req("v2-ephemeral-created:SiafundInputs", V2T, "%MS%.sfes[%MS%.elements[%T2%.SiafundInputs[*].Parent.ID]].Created", opF, "", "an ephemeral siafund parent must have been created earlier in the block", ctxEphemeral))
	// --- v1 parents supplied in the block supplement ---
	for _, x := range [][3]string{
		{"SiacoinInputs", "siacoinLeaf(const:false, ", "{consensus.V1BlockSupplement}.Transactions[*].SiacoinInputs[*]"},
		{"SiafundInputs", "siafundLeaf(const:false, ", "{consensus.V1BlockSupplement}.Transactions[*].SiafundInputs[*]"},
		{"RevisedFileContracts", "fileContractLeaf(const:false, nil, ", "{consensus.V1BlockSupplement}.Transactions[*].RevisedFileContracts[*]"},
		{"StorageProofs", "fileContractLeaf(const:false, nil, ", "{consensus.V1BlockSupplement}.Transactions[*].StorageProofs[*].FileContract"},
		{"ExpiringFileContracts", "fileContractLeaf(const:false, nil, ", "{consensus.V1BlockSupplement}.ExpiringFileContracts[*]"},
	} {
		// written in terms of what the membership wrapper evaluates (containsLeaf of the unspent/unresolved leaf): a
		// wrapper per flag value and a wrapper taking the flag are the same test (wrapper calls are expanded to their body)
		add(req("v1-supplement-live:"+x[0], VB, "call (consensus.ElementAccumulator).containsLeaf(%ST%.Elements, call consensus."+x[1]+x[2]+"))", opF, "", "every v1 parent supplied in the block supplement must be a live (unspent / unresolved) leaf of the base accumulator"))
	}
	add(req("v1-supplement-count", VB, "len({consensus.V1BlockSupplement}.Transactions)", opNE, "len({types.Block}.Transactions)", "one supplement per v1 transaction"))
	return t
}

func runC02(c *Ctx) {
	checkReceiverMutation(c, 20, [][2]string{{"consensus", "MidState"}})

	c.Explain("Decides the structural clauses of 'no double spend / double resolution': (1) guard inventory per (transaction version x element kind): the in-block spent set is consulted, the element must exist, intra-transaction duplicates are rejected (the lookup map is both consulted and written), v2 parents are live leaves of the base accumulator (or, if ephemeral, created earlier in the block), v1 supplement parents are live leaves — each guard with the right operands by provenance, rejecting polarity, and not bypassable; (2) spends are recorded: every function that marks an element spent/resolved also inserts its ID into the MidState's spent set on every normal path, and the apply functions call such a recorder for every input-like field; the expiring-contract loop skips already-resolved contracts; (3) the spent/resolved status reaches the accumulator leaf: leaf constructors receive the diff's flag and the leaf hash commits it. It does not decide accumulator algebra (that a proof valid before the first use fails afterwards).")
	c.NotCovered("accumulator proof algebra (C05)", "reorg interplay across blocks")
	ge := NewGuardEngine(c.P, c.Depth+4)
	tab := c02Table()
	runGuardTable(c, "use-guard", ge, tab)
	c.Min("use-guard", len(tab))
	c02MapsWritten(c, ge)
	c02SpendsRecorded(c, ge)
	// the spent set is per MidState: both transaction versions of a block must go through the same one
	c09TxnByTxn(c, ge)
	c02StalePointers(c)
	c02LeafFlags(c, ge)
}

// c02MapsWritten: the duplicate-detection maps are written with the same key they are consulted with.
func c02MapsWritten(c *Ctx, ge *GuardEngine) {
	type row struct {
		id, entry, key string
		min            int
	}
	rows := []row{
		{"v1:SiacoinInputs", VT, "%T1%.SiacoinInputs[*].ParentID", 1},
		{"v1:SiafundInputs", VT, "%T1%.SiafundInputs[*].ParentID", 1},
		{"v1:FileContractRevisions", VT, "%T1%.FileContractRevisions[*].ParentID", 1},
		{"v2:SiacoinInputs", V2T, "%T2%.SiacoinInputs[*].Parent.ID", 1},
		{"v2:SiafundInputs", V2T, "%T2%.SiafundInputs[*].Parent.ID", 1},
		{"v2:FileContractRevisions", V2T, "%T2%.FileContractRevisions[*].Parent.ID", 1},
		{"v2:FileContractResolutions", V2T, "%T2%.FileContractResolutions[*].Parent.ID", 1},
	}
	cache := map[string][]CallFact{}
	for _, r := range rows {
		cs, ok := cache[r.entry]
		if !ok {
			var found bool
			cs, found = ge.EntryCalls(r.entry)
			if !found {
				c.Undecided("dup-map-written", r.id, r.entry, "entry does not resolve")
				continue
			}
			cache[r.entry] = cs
		}
		re := regexp.MustCompile(pat(r.key))
		n := 0
		where := ""
		var skipped []string
		var condOnly []string // insertions made under exactly one condition
		for _, cf := range cs {
			if cf.Name == "mapupdate" && cf.Args[0] == "make" && re.MatchString(cf.Args[1]) {
				if bad := unexpectedCtx(cf.Ctx, nil, cf.Args); len(bad) > 0 {
					skipped = append(skipped, c.P.Pos(cf.Pos)+" only when "+strings.Join(bad, " && "))
					if len(bad) == 1 {
						condOnly = append(condOnly, bad[0])
					}
					continue
				}
				n++
				where = c.P.Pos(cf.Pos)
			}
		}
		// two insertions under complementary conditions (a fast path and a slow path, each with its own map) cover every case
		for i := 0; i < len(condOnly) && n < r.min; i++ {
			for j := i + 1; j < len(condOnly); j++ {
				if negatedDesc(condOnly[i], condOnly[j]) {
					n++
					break
				}
			}
		}
		c.Check(n >= r.min, "dup-map-written", r.id, where, ifElse(n >= r.min, "the duplicate-detection map is written under key "+r.key, fmt.Sprintf("no unconditional insertion of %s into the transaction-local duplicate map (%v): the duplicate test can never fire", r.key, skipped)))
	}
}

// unexpectedCtx filters a context list by allowed patterns (type-assert failures are free; successes
// are implied when an argument mentions the asserted value).
func unexpectedCtx(ctx []string, allowed []*regexp.Regexp, args []string) []string {
	var bad []string
	okv := ctxAllowed(ctx, allowed, args, true)
	for i, cx := range ctx {
		if !okv[i] {
			bad = append(bad, cx)
		}
	}
	return bad
}

func isSpendRecorder(fn *ssa.Function) bool {
	if fn == nil || fn.Pkg == nil || fn.Pkg.Pkg.Path() != modPath+"/consensus" {
		return false
	}
	for _, n := range []string{"Spent", "Resolved", "Resolution"} {
		for _, st := range fieldStores(fn, n) {
			// the flag is set to true / to the resolution, on a diff record
			if c, ok := st.Val.(*ssa.Const); ok && c.Value != nil && c.Value.ExactString() == "false" {
				continue
			}
			// only diff records (the per-block element diffs of the MidState)
			if fa, ok := st.Addr.(*ssa.FieldAddr); ok && strings.HasSuffix(typeName(fa.X.Type()), "ElementDiff") {
				return true
			}
		}
	}
	return false
}

// c02SpendsRecorded: spend recorders insert into the spent set on every normal path; the apply
// functions call a recorder for every input-like field; expiring contracts skip resolved ones.
func c02SpendsRecorded(c *Ctx, ge *GuardEngine) {
	cons := c.P.SSAPackage("consensus")
	if cons == nil {
		c.Undecided("spend-recorded", "package", "", "consensus package missing")
		return
	}
	spendsRe := regexp.MustCompile(pat("%MS%.spends"))
	n := 0
	for _, fn := range SortedFuncs(c.P.AllFuncs()) {
		if !isSpendRecorder(fn) || fn.Synthetic != "" {
			continue
		}
		if strings.Contains(fn.Name(), "JSON") {
			continue
		}
		n++
		ok := false
		detail := "no insertion into the MidState's spent set"
		for _, mu := range ge.mapUpdates(fn, nil, spendsRe) {
			key := ge.pv.Atom(mu.Key, nil)
			if !strings.HasSuffix(key, "Element}.ID") {
				detail = "spent-set key is " + key + ", not the element's ID"
				continue
			}
			if onEveryNormalPath(fn, mu.Block()) {
				ok = true
				detail = "spends[" + key + "] written on every normal path"
			} else {
				detail = "the insertion into the spent set at " + c.P.Pos(mu.Pos()) + " is skipped on some path that returns normally: a later use of the same element in this block is not detected"
			}
		}
		c.Check(ok, "spend-recorded", FuncName(fn), c.P.Pos(fn.Pos()), detail)
	}
	c.Min("spend-recorded", 4)
	// callers
	type row struct{ id, entry, arg string }
	rows := []row{
		{"v1:SiacoinInputs", AT, v1Elem("siacoinElement", "SiacoinInputs") + "#0"},
		{"v1:SiafundInputs", AT, v1Elem("siafundElement", "SiafundInputs") + "#0"},
		{"v1:StorageProofs", AT, v1Elem("fileContractElement", "StorageProofs") + "#0"},
		{"v2:SiacoinInputs", A2T, "%T2%.SiacoinInputs[*].Parent"},
		{"v2:SiafundInputs", A2T, "%T2%.SiafundInputs[*].Parent"},
		{"v2:FileContractResolutions", A2T, "%T2%.FileContractResolutions[*].Parent"},
		{"v1:ExpiringFileContracts", MAB, "{consensus.V1BlockSupplement}.ExpiringFileContracts[*]"},
	}
	cache := map[string][]CallFact{}
	for _, r := range rows {
		cs, ok := cache[r.entry]
		if !ok {
			var found bool
			cs, found = ge.EntryCalls(r.entry)
			if !found {
				c.Undecided("spend-applied", r.id, r.entry, "entry does not resolve")
				continue
			}
			cache[r.entry] = cs
		}
		cr := CallReq{ID: r.id, Entry: r.entry, Callee: isSpendRecorder, CalleeDesc: "a spend/resolve recorder", Args: map[int]string{1: pat(r.arg)}, Clause: "applying a transaction records every spent/resolved parent"}
		if r.id == "v1:ExpiringFileContracts" {
			cr.Ctx = []string{notSpentPat("…ExpiringFileContracts[*].ID")}
		}
		CheckCallReq(c, "spend-applied", cr, cs)
	}
	// the expiring-contract loop must skip contracts already resolved in this block
	if cs, ok := cache[MAB]; ok {
		found := false
		for _, cf := range cs {
			if isSpendRecorder(cf.Callee) && len(cf.Args) > 1 && strings.Contains(cf.Args[1], "ExpiringFileContracts[*]") {
				for _, cx := range cf.Ctx {
					if regexp.MustCompile(notSpentPat("…ExpiringFileContracts[*].ID")).MatchString(cx) {
						found = true
					}
				}
			}
		}
		c.Check(found, "spend-applied", "expiring-skips-resolved", MAB, ifElse(found, "expired contracts are resolved only if not already in the spent set", "the expiring-contract loop resolves contracts without consulting the spent set: a contract proven in this block is resolved twice"))
	}
}

// c02LeafFlags: the spent / resolved flag of each diff reaches its leaf, and the leaf hash commits it.
func c02LeafFlags(c *Ctx, ge *GuardEngine) {
	progs := ExtractWirePrograms(c.P)
	leafFn := map[string]string{}
	for name, wp := range progs {
		if relPkg(wp.Fn.Pkg()) != "consensus" {
			continue
		}
		for _, o := range wp.Ops {
			if o.Kind == "dist" && strings.HasPrefix(o.Typ, `"leaf/`) {
				leafFn[strings.Trim(o.Typ, `"`)] = name
			}
		}
	}
	cs, ok := ge.EntryCalls(CAB)
	if !ok {
		c.Undecided("leaf-flag", "entry", CAB, "consensus.ApplyBlock does not resolve")
		return
	}
	rows := []struct {
		dist, elem, flag string
		flagArg          int
	}{
		{"leaf/siacoin", "….sces[*].SiacoinElement", "….sces[*].Spent", 1},
		{"leaf/siafund", "….sfes[*].SiafundElement", "….sfes[*].Spent", 1},
		{"leaf/filecontract", "….fces[*].FileContractElement", "….fces[*].Resolved", 2},
		{"leaf/v2filecontract", "….v2fces[*].V2FileContractElement", "(….v2fces[*].Resolution != nil)", 2},
	}
	for _, r := range rows {
		name := leafFn[r.dist]
		if name == "" {
			c.Undecided("leaf-flag", r.dist, "", "no leaf constructor with distinguisher "+r.dist)
			continue
		}
		cr := CallReq{ID: r.dist, Entry: CAB, Callee: func(fn *ssa.Function) bool { return fn != nil && FuncName(fn) == name }, CalleeDesc: name,
			Args: map[int]string{0: pat(r.elem), r.flagArg: pat(r.flag)}, Clause: "the applied leaf is hashed with the diff's spent/resolved status"}
		CheckCallReq(c, "leaf-flag", cr, cs)
	}
	// leaf hash commits the spent flag
	if wp := progs["consensus.(elementLeaf).hash"]; wp != nil {
		s := renderOps(wp.Ops, true)
		ok := strings.Contains(s, "bool .spent") || strings.Contains(s, "bool .Spent")
		c.Check(ok, "leaf-flag", "leaf-hash-commits-spent", c.P.Pos(wp.Decl.Pos()), ifElse(ok, "elementLeaf.hash writes the spent flag into the hashed buffer", "elementLeaf.hash does not commit the spent flag: "+s))
	} else {
		// hash may be implemented without an Encoder: look for a use of the spent field in the hash function
		fn := c.P.Func("consensus.(elementLeaf).hash")
		if fn == nil {
			c.Undecided("leaf-flag", "leaf-hash-commits-spent", "", "(elementLeaf).hash does not resolve")
			return
		}
		uses := false
		for _, b := range fn.Blocks {
			for _, in := range b.Instrs {
				if strings.Contains(in.String(), ".spent") {
					uses = true
				}
			}
		}
		c.Check(uses, "leaf-flag", "leaf-hash-commits-spent", c.P.Pos(fn.Pos()), ifElse(uses, "elementLeaf.hash reads the spent flag", "elementLeaf.hash never reads the spent flag: spent and unspent leaves hash alike"))
	}
}
