package main

import (
	"fmt"
	"go/constant"
	"go/token"
	"go/types"
	"os"
	"regexp"
	"strings"

	"golang.org/x/tools/go/ssa"
)

func init() { register("C06", runC06) }

func runC06(c *Ctx) {
	c.Explain("Decides the structural clauses of 'revert is the exact inverse of apply' (narrow claim): (1) same source: the diffs RevertBlock reports are the fields of a MidState built from the same state and run through the same (*MidState).ApplyBlock as consensus.ApplyBlock uses, so the reported element sets cannot differ; (2) order: every diff slice that has an accessor is reversed in place before the update is built; (3) pre-block content: the reverted-leaf walker hashes every element kind as unspent/unresolved and unrevised from the element stored in the diff, and revise/resolve recorders store the element they are given only when the diff does not already hold the pre-block element (first touch in this block), so a second revision does not overwrite the state to be restored; (4) pointer stability: leaf pointers into the MidState's slices are re-pointed at fresh copies before the slices are permuted; (5) proof-update order: updated leaves are grouped by the pre-block proof length, so the apply-side proof update looks them up before the proof is extended by tree growth and the revert-side update only after the proof has been truncated back. Equality of the re-applied state and proof validity after a revert (accumulator algebra, C05) are not decided.")
	c.NotCovered("equality of re-applied state and diffs (run-time notion)", "proof validity after revert / updateElementProof truncation (accumulator algebra, C05)")
	ge := NewGuardEngine(c.P, c.Depth+4)
	c06ProofUpdateOrder(c)
	c06RevertLeafIndex(c, ge)
	c06DiffPreserved(c)
	rb := c.P.Func(CRB)
	ab := c.P.Func(CAB)
	if rb == nil || ab == nil {
		c.Undecided("same-source", "anchors", "", "consensus.RevertBlock / ApplyBlock do not resolve")
		return
	}
	// (1) same source
	for _, e := range []struct {
		fn   *ssa.Function
		name string
	}{{rb, CRB}, {ab, CAB}} {
		cs := ge.Calls(e.fn, nil, nil, nil, 0, map[*ssa.Function]int{})
		found := false
		for _, cf := range cs {
			if cf.Callee != nil && FuncName(cf.Callee) == "(consensus.MidState).ApplyBlock" && len(cf.Chain) == 1 {
				ok := len(cf.Args) == 3 && cf.Args[0] == "call consensus.NewMidState({consensus.State})" && cf.Args[1] == "{types.Block}" && cf.Args[2] == "{consensus.V1BlockSupplement}"
				c.Check(ok && len(cf.Ctx) == 0, "same-source", e.name+":midstate", c.P.Pos(cf.Pos), ifElse(ok, "effects computed by (*MidState).ApplyBlock on NewMidState(s) with the caller's block and supplement", "effects are computed with "+strings.Join(cf.Args, ", ")))
				found = true
			}
		}
		if !found {
			c.Fail("same-source", e.name+":midstate", c.P.Pos(e.fn.Pos()), e.name+" does not compute its effects by (*MidState).ApplyBlock on a fresh MidState: the reported element sets can differ from what applying reported")
		}
		// returned update: every diff field comes from that MidState
		idx := 0
		if e.name == CAB {
			idx = 1
		}
		for _, a := range ge.ReturnAtoms(e.fn, idx) {
			for _, f := range []string{"sces", "sfes", "fces", "v2fces", "aes", "cie"} {
				want := f + ": call consensus.NewMidState({consensus.State})." + f
				ok := strings.Contains(a, want)
				c.Check(ok, "same-source", e.name+":"+f, c.P.Pos(e.fn.Pos()), ifElse(ok, "update."+f+" is the MidState's "+f, "the returned update's "+f+" is not the MidState's "+f+": "+oneLine(a)))
			}
		}
	}
	// (2) order reversed
	revRe := regexp.MustCompile(`^slices\.Reverse`)
	reversed := map[string]*ssa.Call{}
	var firstReverse *ssa.Call
	for _, b := range rb.Blocks {
		for _, in := range b.Instrs {
			call, ok := in.(*ssa.Call)
			if !ok {
				continue
			}
			if f := call.Call.StaticCallee(); f != nil && revRe.MatchString(strings.TrimPrefix(f.String(), "")) {
				ge.pv.loadCtx = []ssa.Instruction{call}
				a := ge.pv.Atom(call.Call.Args[0], nil)
				if onEveryNormalPath(rb, b) {
					reversed[a] = call
					if firstReverse == nil {
						firstReverse = call
					}
				}
			}
		}
	}
	for _, f := range []string{"sces", "sfes", "fces", "v2fces"} {
		_, ok := reversed["call consensus.NewMidState({consensus.State})."+f]
		c.Check(ok, "order-reversed", f, c.P.Pos(rb.Pos()), ifElse(ok, "RevertUpdate."+f+" is reversed in place on every path", "RevertBlock does not reverse "+f+": a store applying the inverses in the reported order undoes creation before spend"))
	}
	c.Min("order-reversed", 4)
	// (3a) reverted leaves are hashed unspent, unrevised
	progs := ExtractWirePrograms(c.P)
	leafFn := map[string]string{}
	for name, wp := range progs {
		if relPkg(wp.Fn.Pkg()) != "consensus" {
			continue
		}
		for _, o := range wp.Ops {
			if o.Kind == "dist" && strings.HasPrefix(o.Typ, `"leaf/`) {
				leafFn[strings.Trim(o.Typ, `"`)] = name
			}
		}
	}
	cs, _ := ge.EntryCalls(CRB)
	for _, r := range []struct {
		dist, elem string
		rest       map[int]string
	}{
		{"leaf/siacoin", "….sces[*].SiacoinElement", map[int]string{1: "const:false"}},
		{"leaf/siafund", "….sfes[*].SiafundElement", map[int]string{1: "const:false"}},
		{"leaf/filecontract", "….fces[*].FileContractElement", map[int]string{1: "nil", 2: "const:false"}},
		{"leaf/v2filecontract", "….v2fces[*].V2FileContractElement", map[int]string{1: "nil", 2: "const:false"}},
	} {
		name := leafFn[r.dist]
		args := map[int]string{0: pat(r.elem)}
		for i, v := range r.rest {
			args[i] = pat(v)
		}
		CheckCallReq(c, "pre-block-leaf", CallReq{ID: r.dist, Entry: CRB, CalleeDesc: name, Callee: func(fn *ssa.Function) bool { return fn != nil && FuncName(fn) == name }, Args: args,
			CtxFn:  func(desc string) bool { return c06NothingTouched(c, ge, desc) },
			Clause: "after a revert every touched element is restored as unspent / unresolved / unrevised"}, cs)
	}
	// (3b) recorders keep the pre-block element
	c06Recorders(c, ge)
	// (4) pointer stability: a store re-pointing StateElement at a fresh local dominates the first reversal
	if firstReverse != nil {
		ok := false
		for _, b := range rb.Blocks {
			for _, in := range b.Instrs {
				st, isSt := in.(*ssa.Store)
				if !isSt {
					continue
				}
				fa, isFA := st.Addr.(*ssa.FieldAddr)
				if !isFA {
					continue
				}
				if !freshPerIteration(ge.info(rb), st) {
					continue
				}
				if strings.HasSuffix(ge.pv.addrAtom(fa, nil), ".StateElement") {
					// the re-pointing loop must be completed before the first reversal: its header dominates the reversal
					fi := ge.info(rb)
					for _, h := range fi.loopsOf[b] {
						if fi.loopBody[h][firstReverse.Block()] {
							continue
						}
						if h.Dominates(firstReverse.Block()) {
							ok = true
							continue
						}
						// or the loop is skipped only for blocks that touch no existing element (nothing points into the slices)
						descs := ge.condCtx(fi, h, nil)
						all := len(descs) > 0
						for _, d := range descs {
							if !c06NothingTouched(c, ge, d) {
								all = false
							}
						}
						if all {
							ok = true
						}
					}
				}
			}
		}
		c.Check(ok, "pointer-stability", "repoint-before-reverse", c.P.Pos(firstReverse.Pos()), ifElse(ok, "leaf StateElement pointers are re-pointed at fresh copies in a loop that completes before the slices are permuted", "the leaves returned in the revert update still point into the MidState's slices when those are reversed in place: proofs attach to the wrong elements"))
	} else {
		c.Undecided("pointer-stability", "repoint-before-reverse", "", "no reversal found")
	}
}

// c06Recorders: revise / resolve recorders overwrite the diff's stored element only on first touch.
func c06Recorders(c *Ctx, ge *GuardEngine) {
	n := 0
	for _, fn := range SortedFuncs(c.P.AllFuncs()) {
		if !c.P.InModule(fn) || fn.Pkg == nil || relPkg(fn.Pkg.Pkg) != "consensus" || strings.Contains(fn.Name(), "JSON") || fn.Synthetic != "" {
			continue
		}
		isReviser := false
		for _, st := range fieldStores(fn, "Revision") {
			if fa, ok := st.Addr.(*ssa.FieldAddr); ok && strings.HasSuffix(typeName(fa.X.Type()), "FileContractElementDiff") {
				isReviser = true
			}
		}
		if !isReviser {
			continue
		}
		fi := ge.info(fn)
		for _, elemField := range []string{"FileContractElement", "V2FileContractElement"} {
			for _, st := range fieldStores(fn, elemField) {
				fa := st.Addr.(*ssa.FieldAddr)
				if !strings.HasSuffix(typeName(fa.X.Type()), "ElementDiff") {
					continue
				}
				n++
				ctx := ge.condCtx(fi, st.Block(), nil)
				hasNotCreated, hasNoRevision := false, false
				for _, cx := range ctx {
					if strings.HasSuffix(cx, ".Created is false") {
						hasNotCreated = true
					}
					if strings.HasSuffix(cx, ".Revision == nil") {
						hasNoRevision = true
					}
				}
				ok := hasNotCreated && hasNoRevision
				c.Check(ok, "pre-block-element-kept", FuncName(fn), c.P.Pos(st.Pos()), ifElse(ok, "the diff's element is (re)stored only on first touch (not created in this block, no earlier revision)", "the revise recorder overwrites the diff's stored element when "+strings.Join(ctx, " && ")+": a second revision in the block replaces the pre-block contract that a revert must restore"))
			}
		}
	}
	c.Min("pre-block-element-kept", 2)
	// resolvers: a recorder that marks the diff resolved and (re)stores the element without the first-touch test is
	// fine only if every caller hands it the element as it stood BEFORE the block (the parent a transaction carries,
	// an element of the block supplement) — not the MidState's own view, which reflects revisions made earlier in
	// the block: the diff's element is what a revert restores.
	for _, fn := range SortedFuncs(c.P.AllFuncs()) {
		if !c.P.InModule(fn) || fn.Pkg == nil || relPkg(fn.Pkg.Pkg) != "consensus" || strings.Contains(fn.Name(), "JSON") || fn.Synthetic != "" {
			continue
		}
		isResolver := false
		for _, f := range []string{"Resolved", "Resolution"} {
			for _, st := range fieldStores(fn, f) {
				if fa, ok := st.Addr.(*ssa.FieldAddr); ok && strings.HasSuffix(typeName(fa.X.Type()), "FileContractElementDiff") {
					isResolver = true
				}
			}
		}
		if !isResolver {
			continue
		}
		fi := ge.info(fn)
		for _, elemField := range []string{"FileContractElement", "V2FileContractElement"} {
			for _, st := range fieldStores(fn, elemField) {
				fa := st.Addr.(*ssa.FieldAddr)
				if !strings.HasSuffix(typeName(fa.X.Type()), "ElementDiff") {
					continue
				}
				hasNotCreated, hasNoRevision := false, false
				for _, cx := range ge.condCtx(fi, st.Block(), nil) {
					if strings.HasSuffix(cx, ".Created is false") {
						hasNotCreated = true
					}
					if strings.HasSuffix(cx, ".Revision == nil") {
						hasNoRevision = true
					}
				}
				if hasNotCreated && hasNoRevision {
					c.OK("pre-block-element-kept", FuncName(fn)+":resolve", c.P.Pos(st.Pos()), "the resolver (re)stores the diff's element only on first touch")
					continue
				}
				// unguarded: look at what the callers pass
				bad, sites := "", 0
				for _, entry := range []string{AT, A2T, MAB} {
					cs, ok := ge.EntryCalls(entry)
					if !ok {
						continue
					}
					for _, cf := range cs {
						if cf.Callee != fn || len(cf.Args) < 2 {
							continue
						}
						sites++
						if strings.Contains(cf.Args[1], "{consensus.MidState}") {
							bad = "at " + c.P.Pos(cf.Pos) + " it is handed " + cf.Args[1]
						}
					}
				}
				okr := bad == "" && sites > 0
				c.Check(okr, "pre-block-element-kept", FuncName(fn)+":resolve", c.P.Pos(st.Pos()), ifElse(okr, fmt.Sprintf("the resolver stores the element unconditionally, and all %d call sites hand it the element as carried by the transaction / block supplement (pre-block)", sites),
					"the resolver overwrites the diff's element unconditionally and "+bad+": the MidState's view of a contract revised earlier in the block replaces the pre-block element, which is what a revert restores"))
			}
		}
	}
}

// c06ProofUpdateOrder: updateProof selects the group of updated leaves by len(e.MerkleProof), and both update
// kinds key those groups by the pre-block proof length. Hence on apply no store to e.MerkleProof may precede
// the updateProof call, and on revert no store may follow it.
func c06ProofUpdateOrder(c *Ctx) {
	for _, e := range []struct {
		fn         string
		storeFirst bool
		why        string
	}{
		{"consensus.(*elementApplyUpdate).updateElementProof", false, "the proof is extended by tree growth only after the updated leaves of its pre-block tree were applied"},
		{"consensus.(*elementRevertUpdate).updateElementProof", true, "the proof is truncated back to its pre-block length before the reverted leaves of that tree are looked up"},
	} {
		fn := c.P.Func(e.fn)
		if fn == nil {
			c.Undecided("proof-update-order", e.fn, "", "anchor does not resolve")
			continue
		}
		c.NoteFunc(FuncName(fn))
		type at struct {
			b *ssa.BasicBlock
			i int
		}
		var calls, stores []at
		for _, b := range fn.Blocks {
			for i, in := range b.Instrs {
				switch x := in.(type) {
				case *ssa.Call:
					if f := x.Call.StaticCallee(); f != nil && FuncName(f) == "consensus.updateProof" {
						calls = append(calls, at{b, i})
					}
				case *ssa.Store:
					if fa, ok := x.Addr.(*ssa.FieldAddr); ok {
						if pt, ok := fa.X.Type().Underlying().(*types.Pointer); ok {
							if st, ok := pt.Elem().Underlying().(*types.Struct); ok && st.Field(fa.Field).Name() == "MerkleProof" {
								stores = append(stores, at{b, i})
							}
						}
					}
				}
			}
		}
		if len(calls) != 1 || len(stores) == 0 {
			c.Undecided("proof-update-order", e.fn, c.P.Pos(fn.Pos()), fmt.Sprintf("expected one updateProof call and at least one MerkleProof store, found %d and %d", len(calls), len(stores)))
			continue
		}
		reach := func(from, to at) bool { // can control flow from 'from' reach 'to'?
			if from.b == to.b && from.i < to.i {
				return true
			}
			seen := map[*ssa.BasicBlock]bool{}
			st := append([]*ssa.BasicBlock{}, from.b.Succs...)
			for len(st) > 0 {
				b := st[len(st)-1]
				st = st[:len(st)-1]
				if seen[b] {
					continue
				}
				seen[b] = true
				if b == to.b {
					return true
				}
				st = append(st, b.Succs...)
			}
			return false
		}
		ok := true
		for _, s := range stores {
			if e.storeFirst && reach(calls[0], s) {
				ok = false
			}
			if !e.storeFirst && reach(s, calls[0]) {
				ok = false
			}
		}
		c.Check(ok, "proof-update-order", e.fn, c.P.Pos(fn.Pos()), ifElse(ok, e.why, "order violated: "+ifElse(e.storeFirst, "updateProof runs before the proof is truncated", "the proof is extended before updateProof runs")+", so the updated leaves are looked up under the post-block proof length (wrong or empty group)"))
	}
	c.Min("proof-update-order", 2)
}

// c06DiffPreserved: an element's diff accumulates what the block did to it (Created, then Spent / Revision /
// Resolution): revert needs all of it. A function that obtains the diff from the recorder (the helper that
// looks the ID up in ms.elements or appends a zero diff) must therefore update it field by field; replacing
// the whole struct is only legitimate where the element is being created (the literal sets Created: true).
func c06DiffPreserved(c *Ctx) {
	const rule = "diff-preserved"
	isRecorderCall := func(v ssa.Value, depth int) bool { return false }
	var rec func(v ssa.Value, depth int) bool
	rec = func(v ssa.Value, depth int) bool {
		call, ok := v.(*ssa.Call)
		if !ok || depth > 2 {
			return false
		}
		f := call.Call.StaticCallee()
		if f == nil || !c.P.InModule(f) {
			return false
		}
		if isIndexRecorder(f) {
			return true
		}
		// a thin wrapper returning the recorder's result
		for _, r := range returnsOf(f) {
			if len(r.Results) == 1 && rec(r.Results[0], depth+1) {
				return true
			}
		}
		return false
	}
	isRecorderCall = rec
	n := 0
	for _, fn := range SortedFuncs(c.P.AllFuncs()) {
		if !c.P.InModule(fn) || fn.Pkg == nil || relPkg(fn.Pkg.Pkg) != "consensus" || fn.Synthetic != "" || isIndexRecorder(fn) {
			continue
		}
		var ptrs []ssa.Value
		for _, b := range fn.Blocks {
			for _, in := range b.Instrs {
				if v, ok := in.(ssa.Value); ok && isRecorderCall(v, 0) {
					if _, isPtr := v.Type().Underlying().(*types.Pointer); isPtr {
						ptrs = append(ptrs, v)
					}
				}
			}
		}
		if len(ptrs) == 0 {
			continue
		}
		// a function that only forwards the pointer is a wrapper, not a user
		uses := false
		bad := ""
		for _, p := range ptrs {
			for _, r := range *p.Referrers() {
				switch x := r.(type) {
				case *ssa.FieldAddr:
					uses = true
				case *ssa.Store:
					if x.Addr != p {
						continue
					}
					uses = true
					if !literalSetsCreated(x.Val, p) {
						bad = c.P.Pos(x.Pos())
					}
				}
			}
		}
		if !uses {
			continue
		}
		n++
		c.Check(bad == "", rule, FuncName(fn), c.P.Pos(fn.Pos()), ifElse(bad == "", "updates the recorded diff field by field (a whole-struct store only where the element is created)", "replaces the whole recorded diff at "+bad+" with a value that does not carry Created: an element created earlier in this block loses its Created flag (and earlier revisions), so reverting the block restores an element that never existed"))
	}
	c.Check(n >= 6, rule, "inventory", "", fmt.Sprintf("%d functions update a diff obtained from the recorder", n))
}

// literalSetsCreated: v is the value of a local composite literal whose Created field is set to the constant true.
func literalSetsCreated(v ssa.Value, recorded ssa.Value) bool {
	ld, ok := v.(*ssa.UnOp)
	if !ok || ld.Op != token.MUL {
		return false
	}
	al, ok := ld.X.(*ssa.Alloc)
	if !ok || al.Referrers() == nil {
		return false
	}
	st, _ := al.Type().Underlying().(*types.Pointer).Elem().Underlying().(*types.Struct)
	if st == nil {
		return false
	}
	for _, r := range *al.Referrers() {
		fa, ok := r.(*ssa.FieldAddr)
		if !ok || fa.Field >= st.NumFields() || st.Field(fa.Field).Name() != "Created" || fa.Referrers() == nil {
			continue
		}
		for _, rr := range *fa.Referrers() {
			if s, ok := rr.(*ssa.Store); ok {
				if k, ok := s.Val.(*ssa.Const); ok && k.Value != nil && k.Value.ExactString() == "true" {
					return true
				}
				// or the flag the recorded diff already carries is copied over: Created: p.Created
				if ld, ok := s.Val.(*ssa.UnOp); ok && ld.Op == token.MUL {
					if src, ok := ld.X.(*ssa.FieldAddr); ok && src.X == recorded && src.Field == fa.Field {
						return true
					}
				}
			}
		}
	}
	return false
}

// c06NothingTouched: desc is "call pred(…) is false" for a module predicate that is true only when EVERY collection
// through which (MidState).ApplyBlock can touch existing elements is empty (its transactions, its v2 transactions,
// the supplement's expiring contracts — derived from the loops of ApplyBlock itself). Skipping the restoration of
// leaves for such a block is legitimate: there is nothing to restore.
func c06NothingTouched(c *Ctx, ge *GuardEngine, desc string) bool {
	m := regexp.MustCompile(`^call ([\w/.()]+)\(.*\) is false$`).FindStringSubmatch(desc)
	if m == nil {
		return false
	}
	var pred *ssa.Function
	for fn := range c.P.AllFuncs() {
		if c.P.InModule(fn) && FuncName(fn) == m[1] && fnKind(fn) == "bool" {
			pred = fn
		}
	}
	ab := c.P.Func("consensus.(*MidState).ApplyBlock")
	if pred == nil || ab == nil {
		return false
	}
	// the collections ApplyBlock ranges over
	need := map[string]bool{}
	for _, b := range ab.Blocks {
		if len(b.Instrs) == 0 {
			continue
		}
		ifi, ok := b.Instrs[len(b.Instrs)-1].(*ssa.If)
		if !ok {
			continue
		}
		bo, ok := ifi.Cond.(*ssa.BinOp)
		if !ok || bo.Op != token.LSS {
			continue
		}
		if call, ok := bo.Y.(*ssa.Call); ok {
			if bi, ok := call.Call.Value.(*ssa.Builtin); ok && bi.Name() == "len" && len(call.Call.Args) == 1 {
				ge.pv.loadCtx = []ssa.Instruction{ifi}
				a := ge.pv.Atom(call.Call.Args[0], nil)
				// only loops whose body can modify an element that already exists (spend / revise / resolve), not
				// loops that merely create elements
				touches := false
				for bb := range ge.info(ab).loopBody[b] {
					for _, in := range bb.Instrs {
						if cl, ok := in.(*ssa.Call); ok {
							if g := cl.Call.StaticCallee(); g != nil && touchesExisting(c.P, g, 0) {
								touches = true
							}
						}
					}
				}
				if touches && !strings.Contains(a, "[*]") {
					need[a] = true
				}
			}
		}
	}
	if os.Getenv("SACHECK_DEBUG") != "" {
		fmt.Fprintln(os.Stderr, "c06NothingTouched need:", need, "pred:", pred)
	}
	if len(need) < 2 {
		return false
	}
	// every way the predicate returns true must establish emptiness of all of them
	fd := &flagDNF{ge: ge, fi: ge.info(pred), memo: map[*ssa.BasicBlock][]conj{}, stack: map[*ssa.BasicBlock]bool{}}
	var alts []conj
	for _, r := range returnsOf(pred) {
		if len(r.Results) != 1 {
			return false
		}
		for _, pa := range fd.path(r.Block()) {
			for _, t := range fd.truth(r.Results[0], true, map[*ssa.Phi]bool{}, r) {
				alts = append(alts, append(append(conj{}, pa...), t...))
			}
		}
	}
	if os.Getenv("SACHECK_DEBUG") != "" {
		for _, a := range alts {
			fmt.Fprintln(os.Stderr, "  alt:", a.key())
		}
	}
	if len(alts) == 0 {
		return false
	}
	for _, alt := range alts {
		for x := range need {
			found := false
			for _, a := range alt {
				if a.Op == "==" && a.R == "const:0" && a.L == "len("+x+")" {
					found = true
				}
			}
			if !found {
				return false
			}
		}
	}
	return true
}

// touchesExisting: fn (or a module callee, depth <= 3) marks an element spent or resolved or records a revision.
func touchesExisting(p *Program, fn *ssa.Function, depth int) bool {
	if fn == nil || !p.InModule(fn) || depth > 3 {
		return false
	}
	for _, f := range []string{"Spent", "Resolved", "Revision"} {
		if len(fieldStores(fn, f)) > 0 {
			return true
		}
	}
	for _, b := range fn.Blocks {
		for _, in := range b.Instrs {
			if cl, ok := in.(*ssa.Call); ok {
				if g := cl.Call.StaticCallee(); g != nil && g != fn && touchesExisting(p, g, depth+1) {
					return true
				}
			}
		}
	}
	return false
}

// freshPerIteration: the address stored by st is a different object on every execution of st: a local allocated
// inside every loop that contains the store, or a slot of a slice made in this function whose index is a counter
// that strictly increases between two executions of the store and is never reset (uniqueCounter).
func freshPerIteration(fi *fnInfo, st *ssa.Store) bool {
	b := st.Block()
	switch v := st.Val.(type) {
	case *ssa.Alloc:
		for _, h := range fi.loopsOf[b] {
			if !fi.loopBody[h][v.Block()] {
				return false // one object shared by all iterations
			}
		}
		return true
	case *ssa.IndexAddr:
		base := v.X
		for {
			if sl, ok := base.(*ssa.Slice); ok {
				base = sl.X
				continue
			}
			break
		}
		mk, ok := base.(*ssa.MakeSlice)
		if !ok {
			return false
		}
		for _, h := range fi.loopsOf[b] {
			if fi.loopBody[h][mk.Block()] {
				return false // a new backing array per iteration would be fine too, but then the index argument differs; not read
			}
		}
		return uniqueCounter(fi, v.Index, b)
	}
	return false
}

func stripAddConst(v ssa.Value) (ssa.Value, int64, bool) {
	var sum int64
	for {
		switch x := v.(type) {
		case *ssa.BinOp:
			if x.Op != token.ADD {
				return v, sum, true
			}
			if k, ok := x.Y.(*ssa.Const); ok && k.Value != nil {
				if n, exact := constant.Int64Val(k.Value); exact {
					sum += n
					v = x.X
					continue
				}
			}
			if k, ok := x.X.(*ssa.Const); ok && k.Value != nil {
				if n, exact := constant.Int64Val(k.Value); exact {
					sum += n
					v = x.Y
					continue
				}
			}
			return v, sum, true
		case *ssa.Convert:
			v = x.X
			continue
		}
		return v, sum, true
	}
}

// uniqueCounter: idx, used in block use, takes a different value on every execution of that block.
func uniqueCounter(fi *fnInfo, idx ssa.Value, use *ssa.BasicBlock) bool {
	base, _, _ := stripAddConst(idx)
	p0, ok := base.(*ssa.Phi)
	if !ok {
		return false
	}
	loops := fi.loopsOf[use]
	if len(loops) == 0 {
		return false
	}
	inAnyLoop := func(b *ssa.BasicBlock) bool {
		for _, h := range loops {
			if fi.loopBody[h][b] {
				return true
			}
		}
		return false
	}
	// innermost loop containing the use
	inner := loops[0]
	for _, h := range loops {
		if len(fi.loopBody[h]) < len(fi.loopBody[inner]) {
			inner = h
		}
	}
	if p0.Block() != inner {
		return false
	}
	set := map[*ssa.Phi]bool{p0: true}
	work := []*ssa.Phi{p0}
	for len(work) > 0 {
		p := work[0]
		work = work[1:]
		isHeader := false
		for _, h := range loops {
			if h == p.Block() {
				isHeader = true
			}
		}
		for i, e := range p.Edges {
			pb := p.Block().Preds[i]
			if k, isK := e.(*ssa.Const); isK {
				_ = k
				if inAnyLoop(pb) {
					return false // reset inside a loop that contains the use
				}
				continue
			}
			eb, add, _ := stripAddConst(e)
			q, isPhi := eb.(*ssa.Phi)
			if !isPhi || add < 0 {
				return false
			}
			// around the innermost loop the counter must move
			if p == p0 && isHeader && fi.loopBody[inner][pb] && !(q == p0 && add > 0) {
				return false
			}
			if !set[q] {
				if !inAnyLoop(q.Block()) {
					return false
				}
				set[q] = true
				work = append(work, q)
			}
		}
	}
	return true
}

// c06RevertLeafIndex: the elements a block created are reported by its revert update at the leaf indices they were
// given on apply: counted up from the PRE-block accumulator's leaf count, which is the receiver of revertBlock.
func c06RevertLeafIndex(c *Ctx, ge *GuardEngine) {
	const rule = "revert-leaf-index"
	entry := "consensus.(*ElementAccumulator).revertBlock"
	cs, ok := ge.EntryCalls(entry)
	if !ok {
		c.Undecided(rule, "anchor", "", entry+" does not resolve")
		return
	}
	target := mustRe(pat("{[]consensus.elementLeaf#2}[*].StateElement.LeafIndex"))
	want := mustRe(`^\(\{consensus\.ElementAccumulator\}\.NumLeaves \+ (idx|\*)\)$|^\((idx|\*) \+ \{consensus\.ElementAccumulator\}\.NumLeaves\)$`)
	found, bad, where := false, "", ""
	for _, cf := range cs {
		if cf.Name != "store" || len(cf.Args) < 2 || !target.MatchString(cf.Args[0]) {
			continue
		}
		where = c.P.Pos(cf.Pos)
		if want.MatchString(cf.Args[1]) {
			found = true
		} else {
			bad = cf.Args[1]
		}
	}
	okr := found && bad == ""
	c.Check(okr, rule, "added-leaves", where, ifElse(okr, "the reverted block's created leaves are numbered from the pre-block leaf count", ifElse(bad != "", "the created leaves of a reverted block get leaf index "+bad+", not pre-block NumLeaves + position: the revert update reports them at other indices than the apply update did", "no numbering of the created leaves found in revertBlock")))
	c.Min(rule, 1)
}
