package main

import (
	"fmt"
	"go/ast"
	"go/token"
	"go/types"
	"reflect"
	"regexp"
	"sort"
	"strings"

	"golang.org/x/tools/go/packages"
	"golang.org/x/tools/go/ssa"
)

func init() { register("C16", runC16) }

func runC16(c *Ctx) {
	c.Explain("Narrow claim: decides the structural necessary conditions of RHP Merkle proof soundness and of implementation independence, not the tree arithmetic. (1) verifier-guard: every Verify* function of rhp/v2 and rhp/v4 compares the recomputed root with every root it is given (old and new where two are supplied) and rejects on inequality on every accepting path; the verifiers that fix the proof length reject len(proof) != RangeProofSize(n,start,end); VerifyDiffProof rejects a leaf-hash count different from the number of changed sectors and any left-over tree hash. (2) forwarding: the rhp/v4 wrappers hand their arguments to the rhp/v2 implementation unchanged and in the right positions (leaf index -> [i,i+1) of LeavesPerSector, both roots, the same convertFreeActions on the build and verify side) and the v4 root functions are the v2 ones. (3) sibling: the rhp/v4 copy of sectorAccumulator agrees with the rhp/v2 one method by method and field by field (canonical AST, local names and comments ignored, constants by value). (4) hash-variants: under the analysed GOARCH hashBlock/hashBlocks have the signature of the generic reference, every branch forwards (outs, msgs, prefix) unchanged either to the generic reference or to a body-less assembly stub of the same signature, the leaf and node prefixes are distinct constants used by the leaf and node entry points respectively, and the generic reference writes the prefix as the first hashed byte followed by the 64 message bytes, lane i to output i. (5) unsafe-cast: every unsafe pointer cast in blake2b and the rhp Merkle code reinterprets memory that is at least as large as the target (same-size objects, or two adjacent array elements guaranteed by the package's compile-time layout assertion, or a byte-slice window whose loop stride equals the target size).")
	c.NotCovered("equality of optimised (4-way, SIMD) roots with the plain binary tree for every input (numeric / assembly)", "the AVX2 assembly itself", "proof algebra: that builder output is accepted and every corruption rejected for every (n,start,end) and action list", "streaming chunkings of ReaderRoot")
	ge := NewGuardEngine(c.P, c.Depth+4)
	c16Guards(c, ge)
	c16Forwarding(c, ge)
	c16Sibling(c)
	c16HashVariants(c, ge)
	c16Unsafe(c)
	c16Chunks(c, ge)
	c16ReceiverMutation(c)
	c16AppendOrder(c)
}

// lostReceiverWrites: a method with a VALUE receiver that stores into the receiver's fields (and does not return the
// receiver) updates a copy; the caller's accumulator silently stays as it was.
func lostReceiverWrites(fn *ssa.Function) []string {
	if fn.Signature.Recv() == nil || len(fn.Params) == 0 {
		return nil
	}
	if _, isPtr := fn.Signature.Recv().Type().Underlying().(*types.Pointer); isPtr {
		return nil
	}
	recv := fn.Params[0]
	// the receiver is spilled into a local when its fields are assigned
	var spill *ssa.Alloc
	for _, r := range *recv.Referrers() {
		if st, ok := r.(*ssa.Store); ok && st.Val == ssa.Value(recv) {
			spill, _ = st.Addr.(*ssa.Alloc)
		}
	}
	if spill == nil {
		return nil
	}
	// returning the (modified) receiver is the functional-update idiom
	for _, b := range fn.Blocks {
		for _, in := range b.Instrs {
			if ret, ok := in.(*ssa.Return); ok {
				for _, rv := range ret.Results {
					if ld, ok := rv.(*ssa.UnOp); ok && ld.X == ssa.Value(spill) {
						return nil
					}
				}
			}
		}
	}
	var out []string
	for _, b := range fn.Blocks {
		for _, in := range b.Instrs {
			// a pointer-receiver method of the same type called on the copy writes the copy
			if call, ok := in.(*ssa.Call); ok && len(call.Call.Args) > 0 && call.Call.Args[0] == ssa.Value(spill) {
				if callee := call.Call.StaticCallee(); callee != nil && writesThroughRecv(callee, 0) {
					out = append(out, "(through "+callee.Name()+")")
				}
			}
			st, ok := in.(*ssa.Store)
			if !ok || st.Val == ssa.Value(recv) {
				continue
			}
			root := st.Addr
			path := ""
			for {
				if fa, ok := root.(*ssa.FieldAddr); ok {
					if pt, ok := fa.X.Type().Underlying().(*types.Pointer); ok {
						if sx, ok := pt.Elem().Underlying().(*types.Struct); ok {
							path = "." + sx.Field(fa.Field).Name() + path
						}
					}
					root = fa.X
					continue
				}
				if ia, ok := root.(*ssa.IndexAddr); ok {
					path = "[…]" + path
					root = ia.X
					continue
				}
				break
			}
			if root == ssa.Value(spill) && path != "" {
				out = append(out, path)
			}
		}
	}
	return out
}

func c16ReceiverMutation(c *Ctx) {
	checkReceiverMutation(c, 12, [][2]string{{"rhp/v2", "sectorAccumulator"}, {"rhp/v2", "proofAccumulator"}, {"rhp/v4", "sectorAccumulator"}, {"blake2b", "Accumulator"}})
}

// checkReceiverMutation applies lostReceiverWrites to every method of the named types.
func checkReceiverMutation(c *Ctx, min int, ts [][2]string) {
	n := 0
	for _, t := range ts {
		pkg := c.P.SSAPackage(t[0])
		if pkg == nil {
			continue
		}
		typ, _ := pkg.Members[t[1]].(*ssa.Type)
		if typ == nil {
			continue
		}
		for _, rt := range []types.Type{typ.Type(), types.NewPointer(typ.Type())} {
			ms := c.P.SSA.MethodSets.MethodSet(rt)
			for i := 0; i < ms.Len(); i++ {
				fn := c.P.SSA.MethodValue(ms.At(i))
				if fn == nil || fn.Synthetic != "" || len(fn.Blocks) == 0 {
					continue
				}
				if _, isPtr := rt.(*types.Pointer); isPtr {
					if _, declaredPtr := fn.Signature.Recv().Type().Underlying().(*types.Pointer); !declaredPtr {
						continue // seen through the value method set already
					}
				}
				n++
				lost := lostReceiverWrites(fn)
				c.Check(len(lost) == 0, "receiver-mutation", FuncName(fn), c.P.Pos(fn.Pos()), ifElse(len(lost) == 0, "updates reach the caller's accumulator (pointer receiver, or no field is written)", "value receiver but the method writes "+strings.Join(lost, ", ")+" of its receiver: the update is made on a copy and lost"))
			}
		}
	}
	c.Check(n >= min, "receiver-mutation", "inventory", "", fmt.Sprintf("%d methods of stateful types examined", n))
}

// c16Chunks: sectorAccumulator.appendLeaves hashes four leaves at a time straight into the node
// buffer, so when one accumulator is fed repeatedly every chunk but the last must hold a multiple of
// four leaves. The only feeding idiom that guarantees this for an arbitrary reader is io.ReadFull into
// a buffer whose constant size is a multiple of four leaves.
func c16Chunks(c *Ctx, ge *GuardEngine) {
	n := 0
	for _, fn := range SortedFuncs(c.P.AllFuncs()) {
		if !c.P.InModule(fn) || fn.Pkg == nil {
			continue
		}
		rp := relPkg(fn.Pkg.Pkg)
		if rp != "rhp/v2" && rp != "rhp/v4" {
			continue
		}
		fi := ge.info(fn)
		for _, b := range fn.Blocks {
			for _, in := range b.Instrs {
				call, ok := in.(*ssa.Call)
				if !ok {
					continue
				}
				callee := call.Call.StaticCallee()
				if callee == nil || callee.Name() != "appendLeaves" || !strings.Contains(FuncName(callee), "sectorAccumulator") || len(call.Call.Args) != 2 {
					continue
				}
				n++
				inst := FuncName(fn)
				where := c.P.Pos(call.Pos())
				multi := false
				if al, ok := call.Call.Args[0].(*ssa.Alloc); ok {
					for _, h := range fi.loopsOf[b] {
						if !fi.loopBody[h][al.Block()] {
							multi = true
						}
					}
				} else {
					multi = true
				}
				if multi {
					// reset() on the same receiver earlier in the block, with no other use in between
					for _, prev := range b.Instrs {
						if prev == in {
							break
						}
						if pc, ok := prev.(*ssa.Call); ok && len(pc.Call.Args) > 0 && pc.Call.Args[0] == call.Call.Args[0] {
							if pf := pc.Call.StaticCallee(); pf != nil && pf.Name() == "reset" {
								multi = false
							} else {
								multi = true
							}
						}
					}
				}
				if !multi {
					c.OK("chunk-discipline", inst, where, "the accumulator receives a single chunk (fresh or reset immediately before)")
					continue
				}
				ok2, why := fedByReadFull(call.Call.Args[1])
				c.Check(ok2, "chunk-discipline", inst, where, ifElse(ok2, "repeatedly fed accumulator: every chunk is io.ReadFull into a constant buffer that is a multiple of four leaves, so only the last chunk can be short", "one accumulator is fed repeatedly but "+why+": a chunk that is not a multiple of four leaves (other than the last) makes appendLeaves overwrite buffered nodes and yields a root that depends on how the reader chunks the data"))
			}
		}
	}
	c.Check(n >= 3, "chunk-discipline", "inventory", "", fmt.Sprintf("%d appendLeaves call sites analysed", n))
}

func fedByReadFull(arg ssa.Value) (bool, string) {
	sl, ok := arg.(*ssa.Slice)
	if !ok || sl.High == nil {
		return false, "the chunk is not buf[:n]"
	}
	ex, ok := sl.High.(*ssa.Extract)
	if !ok || ex.Index != 0 {
		return false, "the chunk length does not come from a read call"
	}
	rc, ok := ex.Tuple.(*ssa.Call)
	if !ok || rc.Call.StaticCallee() == nil || rc.Call.StaticCallee().Pkg == nil || rc.Call.StaticCallee().Pkg.Pkg.Path() != "io" || rc.Call.StaticCallee().Name() != "ReadFull" {
		name := "a call"
		if ok && rc.Call.StaticCallee() != nil {
			name = rc.Call.StaticCallee().String()
		}
		return false, "the chunk is filled by " + name + ", not io.ReadFull"
	}
	if len(rc.Call.Args) != 2 || rc.Call.Args[1] != sl.X {
		return false, "io.ReadFull fills a different buffer than the one appended"
	}
	var size int64 = -1
	switch mk := sl.X.(type) {
	case *ssa.MakeSlice:
		if k, ok := mk.Len.(*ssa.Const); ok && k.Value != nil {
			size = k.Int64()
		}
	case *ssa.Slice: // make([]byte, K) with constant K is "new [K]byte" sliced whole
		if al, ok := mk.X.(*ssa.Alloc); ok && mk.Low == nil {
			if pt, ok := al.Type().Underlying().(*types.Pointer); ok {
				if at, ok := pt.Elem().Underlying().(*types.Array); ok {
					if mk.High == nil {
						size = at.Len()
					} else if k, ok := mk.High.(*ssa.Const); ok && k.Value != nil && k.Int64() == at.Len() {
						size = at.Len()
					}
				}
			}
		}
	}
	if size < 0 {
		return false, "the buffer is not a fresh constant-size allocation"
	}
	if size%(4*64) != 0 || size == 0 {
		return false, fmt.Sprintf("the buffer size %d is not a multiple of four leaves", size)
	}
	return true, ""
}

func c16Guards(c *Ctx, ge *GuardEngine) {
	const (
		v2   = "rhp/v2."
		v4   = "rhp/v4."
		root = "call (rhp/v2.proofAccumulator).root(…)"
		any  = "…"
	)
	H := func(i int) string {
		if i == 1 {
			return "{types.Hash256}"
		}
		return fmt.Sprintf("{types.Hash256#%d}", i)
	}
	tab := []GuardReq{
		req("range:proof-length", v2+"VerifySectorRangeProof", "len({[]types.Hash256})", opNE, "call rhp/v2.RangeProofSize({uint64#3}, {uint64}, {uint64#2})", "a range proof shorter or longer than RangeProofSize(numRoots,start,end) is rejected", "{uint64#3} != const:0"),
		req("range:root", v2+"VerifySectorRangeProof", root, opNE, H(1), "the recomputed root must equal the supplied root", "{uint64#3} != const:0"),
		req("range:empty-tree", v2+"VerifySectorRangeProof", "len({[]types.Hash256})", opNE, "const:0", "an empty tree admits only the empty proof", "{uint64#3} == const:0"),
		req("stream:proof-length", v2+"(*RangeProofVerifier).Verify", "len({[]types.Hash256})", opNE, "call rhp/v2.RangeProofSize(const:65536, {rhp/v2.RangeProofVerifier}.start, {rhp/v2.RangeProofVerifier}.end)", "a streamed range proof of the wrong length is rejected"),
		req("stream:root", v2+"(*RangeProofVerifier).Verify", root, opNE, H(1), "the recomputed root must equal the supplied root"),
		req("append:old-root", v2+"VerifyAppendProof", root, opNE, H(2), "the tree hashes must reproduce the old root"),
		req("append:new-root", v2+"VerifyAppendProof", root, opNE, H(3), "the root after inserting the sector must equal the new root"),
		req("diff:leaf-count", v2+"VerifyDiffProof", "len(call rhp/v2.sectorsChanged({[]rhp/v2.RPCWriteAction}, {uint64}))", opNE, "len({[]types.Hash256#2})", "one leaf hash per changed sector"),
		req("diff:old-root", v2+"VerifyDiffProof", root, opNE, H(1), "the proof must reproduce the old root"),
		req("diff:new-root", v2+"VerifyDiffProof", root, opNE, H(2), "the modified proof must reproduce the new root"),
		req("diff:no-leftover", v2+"VerifyDiffProof", "len({[]types.Hash256})", opNE, "const:0", "left-over tree hashes are rejected", any),
		req("v4-leaf:proof-length", v4+"VerifyLeafProof", "len({[]types.Hash256})", opNE, "call rhp/v2.RangeProofSize(const:65536, {uint64}, ({uint64} + const:1))", "a leaf proof has exactly the length of the [i,i+1) range proof in a sector", any),
		req("v4-leaf:root", v4+"VerifyLeafProof", root, opNE, H(1), "the recomputed sector root must equal the supplied root", any),
		req("v4-append:old-root", v4+"VerifyAppendSectorsProof", "call (blake2b.Accumulator).Root(…)", opNE, H(1), "the subtree roots must reproduce the old root"),
		req("v4-append:new-root", v4+"VerifyAppendSectorsProof", "call (blake2b.Accumulator).Root(…)", opNE, H(2), "the root after appending must equal the new root"),
		req("v4-roots:proof-length", v4+"VerifySectorRootsProof", "len({[]types.Hash256})", opNE, "call rhp/v2.RangeProofSize({uint64}, {uint64#2}, {uint64#3})", "sector-roots proofs have the fixed range-proof length", any),
		req("v4-roots:root", v4+"VerifySectorRootsProof", root, opNE, H(1), "the recomputed contract root must equal the supplied root", any),
		req("v4-free:leaf-count", v4+"VerifyFreeSectorsProof", "len(call rhp/v2.sectorsChanged(call rhp/v4.convertFreeActions({[]uint64}, {uint64}), {uint64}))", opNE, "len({[]types.Hash256#2})", "one leaf hash per changed sector"),
		req("v4-free:old-root", v4+"VerifyFreeSectorsProof", root, opNE, H(1), "the proof must reproduce the old root"),
		req("v4-free:new-root", v4+"VerifyFreeSectorsProof", root, opNE, H(2), "the modified proof must reproduce the new root"),
		req("v4-free:no-leftover", v4+"VerifyFreeSectorsProof", "len({[]types.Hash256})", opNE, "const:0", "left-over tree hashes are rejected", any),
	}
	// "no left-over": what remains of the tree-hash argument after consumption must be empty; the remainder is
	// the (re-sliced) parameter itself or the slice a consuming helper returns for it
	// (a loop-carried remainder is elided in the atom, so a call result counts unless it names another hash slice)
	leftoverRe := regexp.MustCompile(`^len\((\{\[\]types\.Hash256\}|call .*)\)$`)
	leftover := func(a string) bool { return leftoverRe.MatchString(a) && !strings.Contains(a, "{[]types.Hash256#") }
	for i := range tab {
		if strings.HasSuffix(tab[i].ID, ":no-leftover") {
			tab[i].LFn = leftover
		}
	}
	runGuardTable(c, "verifier-guard", ge, tab)
	c.Min("verifier-guard", len(tab))
}

func c16Forwarding(c *Ctx, ge *GuardEngine) {
	rows := []struct{ fn, want, why string }{
		{"rhp/v4.VerifyLeafProof", "call rhp/v2.VerifySectorRangeProof({[]types.Hash256}, …, {uint64}, ({uint64} + const:1), const:65536, {types.Hash256})", "the leaf's hash is the single range root of [leafIndex, leafIndex+1) in a sector of LeavesPerSector leaves"},
		{"rhp/v4.VerifySectorRootsProof", "call rhp/v2.VerifySectorRangeProof({[]types.Hash256}, {[]types.Hash256#2}, {uint64#2}, {uint64#3}, {uint64}, {types.Hash256})", "proof, roots, start, end, numSectors, root in the v2 parameter order"},
		{"rhp/v4.BuildSectorRootsProof", "call rhp/v2.BuildSectorRangeProof({[]types.Hash256}, {uint64}, {uint64#2})", "same range on the build side"},
		{"rhp/v4.VerifyFreeSectorsProof", "call rhp/v2.VerifyDiffProof(call rhp/v4.convertFreeActions({[]uint64}, {uint64}), {uint64}, {[]types.Hash256}, {[]types.Hash256#2}, {types.Hash256}, {types.Hash256#2}, …)", "actions, numSectors, tree hashes, leaf hashes, old root, new root"},
		{"rhp/v4.BuildFreeSectorsProof", "call rhp/v2.BuildDiffProof(call rhp/v4.convertFreeActions({[]uint64}, len({[]types.Hash256})), {[]types.Hash256})", "the build side derives the same actions from the same freed indices and the current sector count"},
		{"rhp/v4.SectorRoot", "call rhp/v2.SectorRoot(…)", "one definition of the sector root"},
		{"rhp/v4.ReaderRoot", "call rhp/v2.ReaderRoot(…)", "one definition of the reader root"},
		{"rhp/v4.ReadSectorRoot", "call rhp/v2.ReadSectorRoot(…)", "one definition of the streamed sector root"},
		{"rhp/v4.ReadSector", "call rhp/v2.ReadSector(…)", "one definition of the streamed sector root"},
		{"rhp/v4.MetaRoot", "call rhp/v2.MetaRoot({[]types.Hash256})", "one definition of the meta root"},
		{"rhp/v4.sectorProofSize", "call rhp/v2.RangeProofSize({uint64}, {uint64#2}, ({uint64#2} + const:1))", "leaf proofs are [i,i+1) range proofs"},
	}
	for _, r := range rows {
		fn := c.P.Func(r.fn)
		if fn == nil {
			c.Undecided("forwarding", r.fn, "", "anchor does not resolve")
			continue
		}
		c.NoteFunc(FuncName(fn))
		as := ge.ReturnAtoms(fn, 0)
		re := mustRe(pat(r.want + "…"))
		ok := len(as) == 1 && re.MatchString(as[0])
		c.Check(ok, "forwarding", r.fn, c.P.Pos(fn.Pos()), ifElse(ok, "forwards to the rhp/v2 implementation: "+r.why, "returns "+joinShort(as)+"; expected "+r.want+" ("+r.why+")"))
	}
	// VerifyLeafProof: the single range root is the leaf hash of the caller's leaf
	if fn := c.P.Func("rhp/v4.VerifyLeafProof"); fn != nil {
		var elems []string
		for _, b := range fn.Blocks {
			for _, in := range b.Instrs {
				call, ok := in.(*ssa.Call)
				if !ok || call.Call.StaticCallee() == nil || FuncName(call.Call.StaticCallee()) != "rhp/v2.VerifySectorRangeProof" || len(call.Call.Args) < 2 {
					continue
				}
				sl, ok := call.Call.Args[1].(*ssa.Slice)
				if !ok {
					elems = append(elems, "not a literal: "+ge.pv.Atom(call.Call.Args[1], nil))
					continue
				}
				for _, ref := range *sl.X.Referrers() {
					ia, ok := ref.(*ssa.IndexAddr)
					if !ok {
						continue
					}
					for _, r2 := range *ia.Referrers() {
						if st, ok := r2.(*ssa.Store); ok && st.Addr == ia {
							ge.pv.loadCtx = []ssa.Instruction{st}
							elems = append(elems, ge.pv.Atom(st.Val, nil))
						}
					}
				}
			}
		}
		ok := len(elems) == 1 && mustRe(pat("call blake2b.SumLeaf({[64]byte})…")).MatchString(elems[0])
		c.Check(ok, "forwarding", "rhp/v4.VerifyLeafProof:leaf-bound", c.P.Pos(fn.Pos()), ifElse(ok, "the range root is SumLeaf of the caller's leaf", "range roots passed to the range verifier: "+joinShort(elems)+"; expected exactly SumLeaf(&leaf)"))
	}
	c.Min("forwarding", len(rows)+1)
}

// canonical structural print of a node: local variable names by first occurrence, constants by value,
// other objects by name; comments and positions ignored.
type canon struct {
	info   *types.Info
	pkg    *types.Package
	locals map[types.Object]int
	sb     strings.Builder
}

func (cn *canon) ident(id *ast.Ident) {
	if tv, ok := cn.info.Types[id]; ok && tv.Value != nil {
		cn.sb.WriteString("const:" + tv.Value.ExactString() + " ")
		return
	}
	o := cn.info.Uses[id]
	if o == nil {
		o = cn.info.Defs[id]
	}
	switch o := o.(type) {
	case *types.Var:
		if !o.IsField() && o.Pkg() == cn.pkg && o.Parent() != cn.pkg.Scope() {
			n, ok := cn.locals[o]
			if !ok {
				n = len(cn.locals) + 1
				cn.locals[o] = n
			}
			fmt.Fprintf(&cn.sb, "L%d ", n)
			return
		}
		cn.sb.WriteString(o.Name() + " ")
	case *types.Const:
		cn.sb.WriteString("const:" + o.Val().ExactString() + " ")
	case *types.PkgName:
		cn.sb.WriteString(o.Imported().Path() + ". ")
	case *types.Func, *types.TypeName, *types.Builtin, *types.Nil:
		if o.Pkg() != nil && o.Pkg() != cn.pkg {
			cn.sb.WriteString(o.Pkg().Path() + "." + o.Name() + " ")
		} else {
			cn.sb.WriteString(o.Name() + " ")
		}
	default:
		cn.sb.WriteString(id.Name + " ")
	}
}

func (cn *canon) walk(n ast.Node) {
	ast.Inspect(n, func(n ast.Node) bool {
		switch x := n.(type) {
		case nil:
			cn.sb.WriteString(") ")
			return false
		case *ast.CommentGroup, *ast.Comment:
			return false
		case *ast.DeclStmt:
			// local constant declarations are used by value
			if gd, ok := x.Decl.(*ast.GenDecl); ok && gd.Tok == token.CONST {
				return false
			}
		case *ast.SwitchStmt, *ast.TypeSwitchStmt:
			// clauses with constant / type cases are mutually exclusive: their order is not structure
			var body *ast.BlockStmt
			cn.sb.WriteString(reflect.TypeOf(n).Elem().Name() + "( ")
			switch sw := x.(type) {
			case *ast.SwitchStmt:
				if sw.Init != nil {
					cn.walk(sw.Init)
				}
				if sw.Tag != nil {
					cn.walk(sw.Tag)
				}
				body = sw.Body
			case *ast.TypeSwitchStmt:
				if sw.Init != nil {
					cn.walk(sw.Init)
				}
				cn.walk(sw.Assign)
				body = sw.Body
			}
			type keyed struct {
				key string
				cl  ast.Stmt
			}
			var cls []keyed
			sortable := true
			for _, st := range body.List {
				cl := st.(*ast.CaseClause)
				var parts []string
				for _, e := range cl.List {
					tv, ok := cn.info.Types[e]
					switch {
					case ok && tv.Value != nil:
						parts = append(parts, "const:"+tv.Value.ExactString())
					case ok && tv.IsType():
						parts = append(parts, "type:"+types.TypeString(tv.Type, nil))
					default:
						sortable = false
					}
				}
				sort.Strings(parts)
				k := strings.Join(parts, ",")
				if cl.List == nil {
					k = "\xffdefault"
				}
				cls = append(cls, keyed{k, st})
			}
			if sortable {
				sort.SliceStable(cls, func(i, j int) bool { return cls[i].key < cls[j].key })
			}
			for _, k := range cls {
				cn.walk(k.cl)
			}
			cn.sb.WriteString(") ")
			return false
		case *ast.Ident:
			cn.ident(x)
			return false
		case *ast.BasicLit:
			if tv, ok := cn.info.Types[x]; ok && tv.Value != nil {
				cn.sb.WriteString("const:" + tv.Value.ExactString() + " ")
			} else {
				cn.sb.WriteString(x.Value + " ")
			}
			return false
		case ast.Expr:
			if tv, ok := cn.info.Types[x]; ok && tv.Value != nil {
				cn.sb.WriteString("const:" + tv.Value.ExactString() + " ")
				return false
			}
		}
		t := reflect.TypeOf(n).Elem().Name()
		cn.sb.WriteString(t + "( ")
		switch x := n.(type) {
		case *ast.BinaryExpr:
			cn.sb.WriteString(x.Op.String() + " ")
		case *ast.UnaryExpr:
			cn.sb.WriteString(x.Op.String() + " ")
		case *ast.AssignStmt:
			cn.sb.WriteString(x.Tok.String() + " ")
		case *ast.IncDecStmt:
			cn.sb.WriteString(x.Tok.String() + " ")
		case *ast.BranchStmt:
			cn.sb.WriteString(x.Tok.String() + " ")
		case *ast.RangeStmt:
			cn.sb.WriteString(x.Tok.String() + " ")
		}
		return true
	})
}

func canonOf(pkg *packages.Package, n ast.Node) string {
	cn := &canon{info: pkg.TypesInfo, pkg: pkg.Types, locals: map[types.Object]int{}}
	cn.walk(n)
	return cn.sb.String()
}

func firstTokDiff(a, b string) string {
	ta, tb := strings.Fields(a), strings.Fields(b)
	for i := 0; i < len(ta) && i < len(tb); i++ {
		if ta[i] != tb[i] {
			lo := i - 6
			if lo < 0 {
				lo = 0
			}
			hi := func(t []string) int {
				if i+6 < len(t) {
					return i + 6
				}
				return len(t)
			}
			return "… " + strings.Join(ta[lo:hi(ta)], " ") + " …  vs  … " + strings.Join(tb[lo:hi(tb)], " ") + " …"
		}
	}
	return fmt.Sprintf("lengths differ (%d vs %d tokens)", len(ta), len(tb))
}

func methodsOf(pkg *packages.Package, typ string) map[string]*ast.FuncDecl {
	out := map[string]*ast.FuncDecl{}
	for _, f := range pkg.Syntax {
		for _, d := range f.Decls {
			fd, ok := d.(*ast.FuncDecl)
			if !ok || fd.Recv == nil || len(fd.Recv.List) != 1 || fd.Body == nil {
				continue
			}
			t := fd.Recv.List[0].Type
			if st, ok := t.(*ast.StarExpr); ok {
				t = st.X
			}
			if id, ok := t.(*ast.Ident); ok && id.Name == typ {
				out[fd.Name.Name] = fd
			}
		}
	}
	return out
}

// semantic token bag of the code that implements a type: methods of the type plus the unexported package-level
// helpers they call. Local names, receiver kinds, statement order, closures vs. named helpers, clause order and
// comments do not show; operators, constants (by value), external callees, field names, conversions and builtins do.
func typeBag(pkg *packages.Package, typ string) map[string]int {
	bag := map[string]int{}
	info := pkg.TypesInfo
	decls := map[types.Object]*ast.FuncDecl{}
	for _, f := range pkg.Syntax {
		for _, d := range f.Decls {
			if fd, ok := d.(*ast.FuncDecl); ok && fd.Body != nil {
				decls[info.Defs[fd.Name]] = fd
			}
		}
	}
	done := map[*ast.FuncDecl]bool{}
	var visit func(fd *ast.FuncDecl)
	visit = func(fd *ast.FuncDecl) {
		if done[fd] {
			return
		}
		done[fd] = true
		ast.Inspect(fd.Body, func(n ast.Node) bool {
			switch x := n.(type) {
			case *ast.FuncType:
				return false // signatures of closures are not behaviour
			case *ast.DeclStmt:
				if gd, ok := x.Decl.(*ast.GenDecl); ok && gd.Tok == token.CONST {
					return false // local constants are used by value
				}
			}
			if e, ok := n.(ast.Expr); ok {
				if tv, ok := info.Types[e]; ok && tv.Value != nil {
					bag["const:"+tv.Value.ExactString()]++
					return false
				}
				if tv, ok := info.Types[e]; ok && tv.IsType() {
					bag["type:"+types.TypeString(tv.Type, func(p *types.Package) string {
						if p == pkg.Types {
							return ""
						}
						return p.Path()
					})]++
					return false
				}
			}
			switch x := n.(type) {
			case *ast.BinaryExpr:
				op := x.Op.String()
				switch op { // a > b is b < a
				case ">":
					op = "<"
				case ">=":
					op = "<="
				}
				bag["op:"+op]++
			case *ast.UnaryExpr:
				bag["un:"+x.Op.String()]++
			case *ast.AssignStmt:
				if x.Tok != token.ASSIGN && x.Tok != token.DEFINE {
					bag["asg:"+x.Tok.String()]++
				}
			case *ast.IncDecStmt:
				bag["incdec:"+x.Tok.String()]++
			case *ast.IndexExpr:
				bag["index"]++
			case *ast.SliceExpr:
				bag["slice"]++
			case *ast.StarExpr:
				bag["deref"]++
			case *ast.GoStmt:
				bag["go"]++
			case *ast.DeferStmt:
				bag["defer"]++
			case *ast.Ident:
				o := info.Uses[x]
				switch o := o.(type) {
				case *types.Var:
					if o.IsField() {
						bag["field:"+o.Name()]++
					}
				case *types.Builtin:
					bag["builtin:"+o.Name()]++
				case *types.Func:
					if o.Pkg() != nil && o.Pkg() != pkg.Types {
						bag["call:"+o.Pkg().Path()+"."+o.Name()]++
					} else if fd := decls[o]; fd != nil && !o.Exported() {
						// same-package unexported helper or sibling method: part of the implementation
						sig := o.Type().(*types.Signature)
						if sig.Recv() == nil || strings.HasSuffix(typeName(sig.Recv().Type()), "."+typ) {
							visit(fd)
						} else {
							bag["call:"+o.Name()]++
						}
					} else {
						bag["call:"+o.Name()]++
					}
				}
			}
			return true
		})
	}
	for _, fd := range methodsOf(pkg, typ) {
		visit(fd)
	}
	return bag
}

func c16Sibling(c *Ctx) {
	p2, p4 := c.P.Pkg("rhp/v2"), c.P.Pkg("rhp/v4")
	if p2 == nil || p4 == nil {
		c.Undecided("sibling", "sectorAccumulator", "", "packages do not load")
		return
	}
	const typ = "sectorAccumulator"
	t2, t4 := p2.Types.Scope().Lookup(typ), p4.Types.Scope().Lookup(typ)
	if t2 == nil && t4 == nil {
		c.Undecided("sibling", typ, "", "no sectorAccumulator in either package")
		return
	}
	if t4 == nil || t2 == nil {
		// a single remaining copy is fine: nothing to diverge
		c.OK("sibling", typ+":single-copy", "", "only one copy of sectorAccumulator remains")
		return
	}
	s2, ok2 := t2.Type().Underlying().(*types.Struct)
	s4, ok4 := t4.Type().Underlying().(*types.Struct)
	same := ok2 && ok4 && s2.NumFields() == s4.NumFields()
	if same {
		for i := 0; i < s2.NumFields(); i++ {
			if s2.Field(i).Name() != s4.Field(i).Name() || !types.Identical(s2.Field(i).Type(), s4.Field(i).Type()) {
				same = false
			}
		}
	}
	c.Check(same, "sibling", typ+":fields", c.P.Pos(t4.Pos()), ifElse(same, "identical field list in rhp/v2 and rhp/v4", "the rhp/v4 copy of sectorAccumulator has different fields from the rhp/v2 one"))
	b2, b4 := typeBag(p2, typ), typeBag(p4, typ)
	var diffs []string
	keys := map[string]bool{}
	for k := range b2 {
		keys[k] = true
	}
	for k := range b4 {
		keys[k] = true
	}
	for _, k := range sortedKeys(keys) {
		if b2[k] != b4[k] {
			diffs = append(diffs, fmt.Sprintf("%s ×%d in rhp/v2, ×%d in rhp/v4", k, b2[k], b4[k]))
		}
	}
	n := 0
	for _, v := range b4 {
		n += v
	}
	c.Check(len(diffs) == 0, "sibling", typ+":implementation", c.P.Pos(t4.Pos()), ifElse(len(diffs) == 0, fmt.Sprintf("the two implementations use the same operators, constants, fields, conversions and external calls (%d semantic tokens each)", n), "the two copies of sectorAccumulator differ, so v4 roots computed through the local copy can differ from rhp/v2 roots: "+strings.Join(diffs, "; ")))
	c.Check(len(methodsOf(p2, typ)) >= 4 && len(methodsOf(p4, typ)) >= 1, "sibling", typ+":inventory", "", fmt.Sprintf("%d methods in rhp/v2, %d in rhp/v4", len(methodsOf(p2, typ)), len(methodsOf(p4, typ))))
	c.Min("sibling", 3)
}

func sigString(f *types.Func) string {
	return types.TypeString(f.Type(), func(p *types.Package) string { return p.Path() })
}

func c16HashVariants(c *Ctx, ge *GuardEngine) {
	pkg := c.P.Pkg("blake2b")
	if pkg == nil {
		c.Undecided("hash-variants", "blake2b", "", "package does not load")
		return
	}
	look := func(n string) *types.Func { f, _ := pkg.Types.Scope().Lookup(n).(*types.Func); return f }
	decls := map[string]*ast.FuncDecl{}
	for _, f := range pkg.Syntax {
		for _, d := range f.Decls {
			if fd, ok := d.(*ast.FuncDecl); ok && fd.Recv == nil {
				decls[fd.Name.Name] = fd
			}
		}
	}
	for _, pr := range [][2]string{{"hashBlock", "hashBlockGeneric"}, {"hashBlocks", "hashBlocksGeneric"}} {
		f, g := look(pr[0]), look(pr[1])
		inst := pr[0] + "@" + c.Arch
		if f == nil || g == nil || decls[pr[0]] == nil {
			c.Undecided("hash-variants", inst, "", "function does not resolve under this GOARCH")
			continue
		}
		fd := decls[pr[0]]
		where := c.P.Pos(fd.Pos())
		if sigString(f) != sigString(g) {
			c.Fail("hash-variants", inst, where, pr[0]+" has signature "+sigString(f)+", the generic reference "+sigString(g))
			continue
		}
		if fd.Body == nil {
			c.OK("hash-variants", inst, where, "assembly implementation with the reference signature (body not analysed)")
			continue
		}
		// every call in the body that is not a condition forwards the parameters unchanged
		var params []types.Object
		for _, fl := range fd.Type.Params.List {
			for _, n := range fl.Names {
				params = append(params, pkg.TypesInfo.Defs[n])
			}
		}
		var bad []string
		ncalls, nref := 0, 0
		ast.Inspect(fd.Body, func(n ast.Node) bool {
			ce, ok := n.(*ast.CallExpr)
			if !ok {
				return true
			}
			id, ok := ce.Fun.(*ast.Ident)
			if !ok {
				return true
			}
			callee, _ := pkg.TypesInfo.Uses[id].(*types.Func)
			if callee == nil {
				return true
			}
			ncalls++
			if callee == g {
				nref++
			} else if d := decls[callee.Name()]; d == nil || d.Body != nil {
				bad = append(bad, "calls "+callee.Name()+", which is neither the generic reference nor an assembly stub")
			} else if sigString(callee) != sigString(g) {
				bad = append(bad, "assembly stub "+callee.Name()+" has a different signature")
			}
			if len(ce.Args) != len(params) {
				bad = append(bad, "argument count differs in call to "+callee.Name())
				return true
			}
			for i, a := range ce.Args {
				aid, ok := a.(*ast.Ident)
				if !ok || pkg.TypesInfo.Uses[aid] != params[i] {
					bad = append(bad, fmt.Sprintf("argument %d of %s is %s, not the parameter %s", i+1, callee.Name(), types.ExprString(a), params[i].Name()))
				}
			}
			return true
		})
		if ncalls == 0 {
			bad = append(bad, "no forwarding call")
		}
		if nref == 0 {
			bad = append(bad, "no path falls back to the generic reference "+pr[1])
		}
		c.Check(len(bad) == 0, "hash-variants", inst, where, ifElse(len(bad) == 0, fmt.Sprintf("%d forwarding calls, arguments unchanged, falls back to %s", ncalls, pr[1]), strings.Join(bad, "; ")))
	}
	// prefixes
	lp, np := pkg.Types.Scope().Lookup("leafHashPrefix"), pkg.Types.Scope().Lookup("nodeHashPrefix")
	lc, ok1 := lp.(*types.Const)
	nc, ok2 := np.(*types.Const)
	if !ok1 || !ok2 {
		c.Undecided("hash-variants", "prefix-constants", "", "leafHashPrefix/nodeHashPrefix are not constants")
	} else {
		ok := lc.Val().ExactString() != nc.Val().ExactString()
		c.Check(ok, "hash-variants", "prefix-constants", c.P.Pos(lc.Pos()), ifElse(ok, "leaf prefix "+lc.Val().ExactString()+" and node prefix "+nc.Val().ExactString()+" are distinct", "leaf and node hashes share the prefix "+lc.Val().ExactString()+": a leaf can be presented as an interior node"))
		for _, e := range []struct {
			fn   string
			want types.Object
		}{{"SumLeaf", lp}, {"SumLeaves", lp}, {"SumPair", np}, {"SumNodes", np}} {
			fd := decls[e.fn]
			if fd == nil || fd.Body == nil {
				c.Undecided("hash-variants", e.fn+":prefix", "", "function does not resolve")
				continue
			}
			var used []string
			good := false
			ast.Inspect(fd.Body, func(n ast.Node) bool {
				ce, ok := n.(*ast.CallExpr)
				if !ok || len(ce.Args) == 0 {
					return true
				}
				id, ok := ce.Fun.(*ast.Ident)
				if !ok || (id.Name != "hashBlock" && id.Name != "hashBlocks") {
					return true
				}
				last := ce.Args[len(ce.Args)-1]
				used = append(used, types.ExprString(last))
				if lid, ok := last.(*ast.Ident); ok && pkg.TypesInfo.Uses[lid] == e.want {
					good = true
				} else {
					good = false
				}
				return true
			})
			ok := good && len(used) == 1
			c.Check(ok, "hash-variants", e.fn+":prefix", c.P.Pos(fd.Pos()), ifElse(ok, "hashes with "+e.want.Name(), e.fn+" hashes with prefix "+strings.Join(used, ",")+", expected "+e.want.Name()))
		}
	}
	// generic reference shape: buf[0] = byte(prefix); copy(buf[1:], msg[:]); Sum256(buf[:]); lane i -> output i
	if fn := c.P.Func("blake2b.hashBlockGeneric"); fn != nil {
		fd := decls["hashBlockGeneric"]
		ok, why := genericShape(pkg, fd)
		c.Check(ok, "hash-variants", "hashBlockGeneric:shape", c.P.Pos(fd.Pos()), ifElse(ok, "hashes prefix byte followed by the 64 message bytes", why))
	} else {
		c.Undecided("hash-variants", "hashBlockGeneric:shape", "", "anchor does not resolve")
	}
	if fd := decls["hashBlocksGeneric"]; fd != nil && fd.Body != nil {
		ok, why := lanesShape(pkg, fd)
		c.Check(ok, "hash-variants", "hashBlocksGeneric:lanes", c.P.Pos(fd.Pos()), ifElse(ok, "output lane i is the reference hash of message lane i with the same prefix", why))
	} else {
		c.Undecided("hash-variants", "hashBlocksGeneric:lanes", "", "anchor does not resolve")
	}
	c.Min("hash-variants", 9)
}

func genericShape(pkg *packages.Package, fd *ast.FuncDecl) (bool, string) {
	if fd == nil || fd.Body == nil || len(fd.Type.Params.List) < 2 {
		return false, "hashBlockGeneric does not resolve"
	}
	info := pkg.TypesInfo
	msg := info.Defs[fd.Type.Params.List[0].Names[0]]
	prefix := info.Defs[fd.Type.Params.List[len(fd.Type.Params.List)-1].Names[0]]
	var buf types.Object
	prefixFirst, copied, hashed := false, false, false
	isBufSlice := func(e ast.Expr, low string) bool {
		se, ok := stripParens(e).(*ast.SliceExpr)
		if !ok || se.High != nil {
			return false
		}
		id, ok := se.X.(*ast.Ident)
		if !ok || buf == nil || info.Uses[id] != buf {
			return false
		}
		if low == "" {
			return se.Low == nil
		}
		tv := info.Types[se.Low]
		return se.Low != nil && tv.Value != nil && tv.Value.ExactString() == low
	}
	ast.Inspect(fd.Body, func(n ast.Node) bool {
		switch x := n.(type) {
		case *ast.ValueSpec:
			for _, nm := range x.Names {
				if at, ok := info.Defs[nm].Type().Underlying().(*types.Array); ok && at.Len() == 65 {
					buf = info.Defs[nm]
				}
			}
		case *ast.AssignStmt:
			if len(x.Lhs) == 1 && len(x.Rhs) == 1 {
				if ie, ok := x.Lhs[0].(*ast.IndexExpr); ok {
					if id, ok := ie.X.(*ast.Ident); ok && buf != nil && info.Uses[id] == buf {
						if tv := info.Types[ie.Index]; tv.Value != nil && tv.Value.ExactString() == "0" {
							if ce, ok := x.Rhs[0].(*ast.CallExpr); ok && len(ce.Args) == 1 {
								if aid, ok := ce.Args[0].(*ast.Ident); ok && info.Uses[aid] == prefix {
									prefixFirst = true
								}
							}
						}
					}
				}
			}
		case *ast.CallExpr:
			if id, ok := x.Fun.(*ast.Ident); ok && id.Name == "copy" && len(x.Args) == 2 {
				if isBufSlice(x.Args[0], "1") {
					if se, ok := stripParens(x.Args[1]).(*ast.SliceExpr); ok && se.Low == nil && se.High == nil {
						if sid, ok := se.X.(*ast.Ident); ok && info.Uses[sid] == msg {
							copied = true
						}
					}
				}
			}
			if se, ok := x.Fun.(*ast.SelectorExpr); ok && se.Sel.Name == "Sum256" && len(x.Args) == 1 && isBufSlice(x.Args[0], "") {
				if f, _ := info.Uses[se.Sel].(*types.Func); f != nil && f.Pkg() != nil && strings.HasSuffix(f.Pkg().Path(), "crypto/blake2b") {
					hashed = true
				}
			}
		}
		return true
	})
	switch {
	case buf == nil:
		return false, "no 65-byte buffer (prefix + 64 message bytes)"
	case !prefixFirst:
		return false, "the prefix is not written as the first hashed byte"
	case !copied:
		return false, "the message is not copied whole after the prefix byte"
	case !hashed:
		return false, "the whole buffer is not hashed with BLAKE2b-256"
	}
	return true, ""
}

func lanesShape(pkg *packages.Package, fd *ast.FuncDecl) (bool, string) {
	info := pkg.TypesInfo
	var ps []types.Object
	for _, fl := range fd.Type.Params.List {
		for _, n := range fl.Names {
			ps = append(ps, info.Defs[n])
		}
	}
	if len(ps) != 3 {
		return false, "unexpected parameter list"
	}
	ok := false
	why := "no statement outs[i] = hashBlockGeneric(&msgs[i], prefix) inside a loop over the lanes"
	ast.Inspect(fd.Body, func(n ast.Node) bool {
		var ko types.Object
		var bodyList []ast.Stmt
		switch loop := n.(type) {
		case *ast.RangeStmt:
			key, _ := loop.Key.(*ast.Ident)
			if key == nil {
				return true
			}
			ko = info.Defs[key]
			bodyList = loop.Body.List
		case *ast.ForStmt:
			// for i := 0; i < len(msgs); i++
			as, ok := loop.Init.(*ast.AssignStmt)
			if !ok || len(as.Lhs) != 1 {
				return true
			}
			id, _ := as.Lhs[0].(*ast.Ident)
			inc, isInc := loop.Post.(*ast.IncDecStmt)
			if id == nil || !isInc || inc.Tok != token.INC {
				return true
			}
			ko = info.Defs[id]
			bodyList = loop.Body.List
		default:
			return true
		}
		if ko == nil {
			return true
		}
		for _, st := range bodyList {
			as, isAs := st.(*ast.AssignStmt)
			if !isAs || len(as.Lhs) != 1 || len(as.Rhs) != 1 {
				continue
			}
			li, ok1 := as.Lhs[0].(*ast.IndexExpr)
			ce, ok2 := as.Rhs[0].(*ast.CallExpr)
			if !ok1 || !ok2 || len(ce.Args) != 2 {
				continue
			}
			lx, _ := li.X.(*ast.Ident)
			lidx, _ := li.Index.(*ast.Ident)
			fid, _ := ce.Fun.(*ast.Ident)
			if lx == nil || lidx == nil || fid == nil || info.Uses[lx] != ps[0] || info.Uses[lidx] != ko || fid.Name != "hashBlockGeneric" {
				continue
			}
			ue, ok3 := ce.Args[0].(*ast.UnaryExpr)
			pid, _ := ce.Args[1].(*ast.Ident)
			if !ok3 || ue.Op != token.AND || pid == nil || info.Uses[pid] != ps[2] {
				why = "the lane hash does not use the caller's prefix"
				continue
			}
			mi, ok4 := ue.X.(*ast.IndexExpr)
			if !ok4 {
				continue
			}
			mx, _ := mi.X.(*ast.Ident)
			midx, _ := mi.Index.(*ast.Ident)
			if mx != nil && midx != nil && info.Uses[mx] == ps[1] && info.Uses[midx] == ko {
				ok = true
			} else {
				why = "output lane and message lane indices differ"
			}
		}
		return true
	})
	return ok, why
}

// ---- unsafe casts ----

func c16Unsafe(c *Ctx) {
	sizes := types.SizesFor("gc", c.Arch)
	if sizes == nil {
		c.Undecided("unsafe-cast", "sizes", "", "no size model for "+c.Arch)
		return
	}
	n := 0
	for _, suffix := range []string{"blake2b", "rhp/v2", "rhp/v4"} {
		pkg := c.P.Pkg(suffix)
		if pkg == nil {
			c.Undecided("unsafe-cast", suffix, "", "package does not load")
			continue
		}
		info := pkg.TypesInfo
		for _, file := range pkg.Syntax {
			fname := c.P.Fset.Position(file.Pos()).Filename
			if suffix != "blake2b" && !strings.HasSuffix(fname, "merkle.go") {
				continue
			}
			hasLayoutAssert := layoutAssertions(pkg, file)
			var stack []ast.Node
			seenInFn := map[string]int{}
			ast.Inspect(file, func(nd ast.Node) bool {
				if nd == nil {
					stack = stack[:len(stack)-1]
					return false
				}
				stack = append(stack, nd)
				ce, ok := nd.(*ast.CallExpr)
				if !ok || len(ce.Args) != 1 {
					return true
				}
				// (*D)(unsafe.Pointer(src))
				tv, ok := info.Types[ce.Fun]
				if !ok || !tv.IsType() {
					return true
				}
				dp, ok := tv.Type.Underlying().(*types.Pointer)
				if !ok {
					return true
				}
				inner, ok := stripParens(ce.Args[0]).(*ast.CallExpr)
				if !ok || len(inner.Args) != 1 {
					return true
				}
				itv, ok := info.Types[inner.Fun]
				if !ok || !itv.IsType() || itv.Type.String() != "unsafe.Pointer" {
					return true
				}
				n++
				src := stripParens(inner.Args[0])
				st := info.TypeOf(src)
				dsz := sizes.Sizeof(dp.Elem())
				fnName := enclosingFunc(stack)
				seenInFn[fnName+"|"+types.TypeString(dp.Elem(), nil)]++
				inst := fmt.Sprintf("%s:%s:(*%s)#%d", suffix, fnName, types.TypeString(dp.Elem(), nil), seenInFn[fnName+"|"+types.TypeString(dp.Elem(), nil)])
				where := c.P.Pos(ce.Pos())
				sp, isPtr := st.Underlying().(*types.Pointer)
				if !isPtr {
					c.Fail("unsafe-cast", inst, where, "source of the cast is not a pointer: "+types.ExprString(src))
					return true
				}
				ssz := sizes.Sizeof(sp.Elem())
				switch {
				case dsz <= ssz:
					c.OK("unsafe-cast", inst, where, fmt.Sprintf("target %d bytes within source object of %d bytes", dsz, ssz))
				default:
					// &x.f[i] with adjacency assertion, or &bytes[i] with matching stride
					ue, isAddr := src.(*ast.UnaryExpr)
					var ie *ast.IndexExpr
					if isAddr && ue.Op == token.AND {
						ie, _ = stripParens(ue.X).(*ast.IndexExpr)
					}
					if ie == nil {
						c.Fail("unsafe-cast", inst, where, fmt.Sprintf("target is %d bytes but the source object %s has only %d", dsz, types.ExprString(src), ssz))
						return true
					}
					ct := info.TypeOf(ie.X)
					if sl, ok := ct.Underlying().(*types.Slice); ok && sizes.Sizeof(sl.Elem()) == 1 {
						stride, bound := loopStride(info, stack, ie.Index)
						ok := stride == dsz
						c.Check(ok, "unsafe-cast", inst, where, ifElse(ok, fmt.Sprintf("byte-slice window of %d bytes advanced by a loop stride of %d (%s)", dsz, stride, bound), fmt.Sprintf("the cast reads %d bytes at %s but the enclosing loop advances by %d: the window can run past the data it was given", dsz, types.ExprString(src), stride)))
						return true
					}
					if at, ok := ct.Underlying().(*types.Array); ok {
						esz := sizes.Sizeof(at.Elem())
						sel, isSel := stripParens(ie.X).(*ast.SelectorExpr)
						ok := dsz == 2*esz && isSel && hasLayoutAssert[sel.Sel.Name]
						c.Check(ok, "unsafe-cast", inst, where, ifElse(ok, fmt.Sprintf("target spans two adjacent %d-byte elements; the element after the last is the next field, pinned by the compile-time layout assertion", esz), fmt.Sprintf("target is %d bytes, element %d bytes: needs exactly two adjacent elements and a layout assertion on field %s", dsz, esz, types.ExprString(ie.X))))
						return true
					}
					c.Fail("unsafe-cast", inst, where, fmt.Sprintf("target is %d bytes but %s has only %d", dsz, types.ExprString(src), ssz))
				}
				return true
			})
		}
	}
	c.Check(n >= 4, "unsafe-cast", "inventory", "", fmt.Sprintf("%d unsafe pointer casts analysed", n))
}

func enclosingFunc(stack []ast.Node) string {
	for i := len(stack) - 1; i >= 0; i-- {
		if fd, ok := stack[i].(*ast.FuncDecl); ok {
			if fd.Recv != nil && len(fd.Recv.List) == 1 {
				return "(" + types.ExprString(fd.Recv.List[0].Type) + ")." + fd.Name.Name
			}
			return fd.Name.Name
		}
	}
	return "?"
}

// layoutAssertions: fields f such that the file contains
// var _ [unsafe.Offsetof(T{}.g)]struct{} = [unsafe.Sizeof(T{}.f)]struct{}{}  (g directly follows f)
func layoutAssertions(pkg *packages.Package, file *ast.File) map[string]bool {
	out := map[string]bool{}
	info := pkg.TypesInfo
	for _, d := range file.Decls {
		gd, ok := d.(*ast.GenDecl)
		if !ok || gd.Tok != token.VAR {
			continue
		}
		for _, sp := range gd.Specs {
			vs := sp.(*ast.ValueSpec)
			if len(vs.Names) != 1 || vs.Names[0].Name != "_" || vs.Type == nil || len(vs.Values) != 1 {
				continue
			}
			lt, ok1 := vs.Type.(*ast.ArrayType)
			cl, ok2 := vs.Values[0].(*ast.CompositeLit)
			if !ok1 || !ok2 {
				continue
			}
			rt, ok3 := cl.Type.(*ast.ArrayType)
			if !ok3 {
				continue
			}
			fieldOf := func(e ast.Expr, fn string) (string, *types.Struct) {
				ce, ok := e.(*ast.CallExpr)
				if !ok || len(ce.Args) != 1 {
					return "", nil
				}
				se, ok := ce.Fun.(*ast.SelectorExpr)
				if !ok || se.Sel.Name != fn {
					return "", nil
				}
				as, ok := ce.Args[0].(*ast.SelectorExpr)
				if !ok {
					return "", nil
				}
				st, _ := info.TypeOf(as.X).Underlying().(*types.Struct)
				return as.Sel.Name, st
			}
			g, st1 := fieldOf(lt.Len, "Offsetof")
			f, st2 := fieldOf(rt.Len, "Sizeof")
			if g == "" || f == "" || st1 == nil || st1 != st2 {
				continue
			}
			// f must be the first field and g the next one for Offsetof(g) == Sizeof(f) to pin adjacency
			if st1.NumFields() >= 2 && st1.Field(0).Name() == f && st1.Field(1).Name() == g {
				out[f] = true
			}
		}
	}
	return out
}

// loopStride finds the innermost enclosing for statement whose post statement advances the index
// variable by a constant, and returns that constant.
func loopStride(info *types.Info, stack []ast.Node, idx ast.Expr) (int64, string) {
	id, ok := stripParens(idx).(*ast.Ident)
	if !ok {
		return -1, "index is not a loop variable"
	}
	obj := info.Uses[id]
	for i := len(stack) - 1; i >= 0; i-- {
		fs, ok := stack[i].(*ast.ForStmt)
		if !ok || fs.Post == nil {
			continue
		}
		as, ok := fs.Post.(*ast.AssignStmt)
		if !ok || as.Tok != token.ADD_ASSIGN || len(as.Lhs) != 1 {
			continue
		}
		lid, ok := as.Lhs[0].(*ast.Ident)
		if !ok || info.Uses[lid] != obj {
			continue
		}
		if tv := info.Types[as.Rhs[0]]; tv.Value != nil {
			if v, ok := constantInt64(tv); ok {
				return v, "for … " + types.ExprString(fs.Cond)
			}
		}
	}
	return -1, "no constant-stride loop"
}

func constantInt64(tv types.TypeAndValue) (int64, bool) {
	if tv.Value == nil {
		return 0, false
	}
	s := tv.Value.ExactString()
	var v int64
	_, err := fmt.Sscan(s, &v)
	return v, err == nil
}

// writesThroughRecv: a pointer-receiver method that stores into fields of *receiver (directly or through another
// such method).
func writesThroughRecv(fn *ssa.Function, depth int) bool {
	if depth > 3 || fn.Signature.Recv() == nil || len(fn.Params) == 0 || len(fn.Blocks) == 0 {
		return false
	}
	if _, isPtr := fn.Signature.Recv().Type().Underlying().(*types.Pointer); !isPtr {
		return false
	}
	recv := fn.Params[0]
	for _, b := range fn.Blocks {
		for _, in := range b.Instrs {
			switch x := in.(type) {
			case *ssa.Store:
				root := x.Addr
				for {
					if fa, ok := root.(*ssa.FieldAddr); ok {
						root = fa.X
						continue
					}
					break
				}
				if root == ssa.Value(recv) && x.Addr != ssa.Value(recv) {
					return true
				}
			case *ssa.Call:
				if len(x.Call.Args) > 0 && x.Call.Args[0] == ssa.Value(recv) {
					if callee := x.Call.StaticCallee(); callee != nil && callee != fn && writesThroughRecv(callee, depth+1) {
						return true
					}
				}
			}
		}
	}
	return false
}
