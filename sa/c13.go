package main

import (
	"fmt"
	"sort"
	"strings"

	"golang.org/x/tools/go/ssa"
)

func init() { register("C13", runC13) }

func runC13(c *Ctx) {
	c.Explain("Narrow claim. Decides (1) headers == blocks: the proof-of-work fields of State are written only by ApplyHeader (plus genesis construction and decoding), and consensus.ApplyBlock returns exactly ApplyHeader(state-after-non-PoW-updates, b.Header(), targetTimestamp); (2) the header validation inventory: parent ID, median-timestamp, nonce factor and work-target guards with the right operands and operators, reached from ValidateOrphan and ValidateBlock with the block's own header; (3) era dispatch is a total case analysis on the child height against the v2 allow and final-cut heights, and PoWTarget reads the recorded ChildTarget before the final cut and the inverse of Difficulty after; (4) clamp shape: each era's adjustment returns a value that passes through its lower/upper clamp (final cut: max(.,1); v2: Difficulty -/+ Difficulty/250; Oak: ChildTarget*1004/1000 and *1000/1004, unclamped only at the ASIC reset height). The big-integer/duration arithmetic, monotonicity of work and the heavier-than relation are numeric and not decided.")
	c.NotCovered("clamp arithmetic and totality of big-integer/duration arithmetic", "monotonicity of cumulative work", "inverse relation target/difficulty as arithmetic", "SufficientlyHeavierThan beyond the strictness and operands of its comparison")
	ge := NewGuardEngine(c.P, c.Depth+4)
	// (2) header inventory, from ValidateHeader and through ValidateBlock
	hdr := func(entry, h string) []GuardReq {
		return []GuardReq{
			req("parent-id@"+entry, entry, h+".ParentID", opNE, "{consensus.State}.Index.ID", "a header must extend the tip"),
			req("median-time@"+entry, entry, "call (time.Time).Before("+h+".Timestamp, call (consensus.State).medianTimestamp({consensus.State}))", opT, "", "a header must not be older than the median of the previous eleven timestamps"),
			req("nonce-factor@"+entry, entry, "("+h+".Nonce % call (consensus.State).NonceFactor({consensus.State}))", opNE, "const:0", "the nonce must be admissible"),
			req("meets-target@"+entry, entry, "call (types.BlockID).CmpWork(call (types.BlockHeader).ID("+h+"), call (consensus.State).PoWTarget({consensus.State}))", opLT, "const:0", "the header's ID must meet the proof-of-work target"),
		}
	}
	tab := append(hdr("consensus.ValidateHeader", "{types.BlockHeader}"), hdr("consensus.ValidateOrphan", "call (types.Block).Header({types.Block})")...)
	tab = append(tab, hdr(VB, "call (types.Block).Header({types.Block})")...)
	runGuardTable(c, "header-guard", ge, tab)
	c.Min("header-guard", 12)
	// reorg rule: "sufficiently heavier" is a strict comparison (an asymmetric relation cannot hold both ways or of a state with itself)
	if fn := c.P.Func("consensus.(State).SufficientlyHeavierThan"); fn != nil {
		c.NoteFunc(FuncName(fn))
		as := ge.ReturnAtoms(fn, 0)
		re := mustRe(pat("(call (consensus.Work).Cmp({consensus.State}.TotalWork, call (consensus.Work).add({consensus.State#2}.TotalWork, …{consensus.State#2}.Difficulty…)) > const:0)"))
		ok := len(as) == 1 && re.MatchString(as[0])
		c.Check(ok, "heavier-strict", "SufficientlyHeavierThan", c.P.Pos(fn.Pos()), ifElse(ok, "s is sufficiently heavier than t iff s.TotalWork > t.TotalWork + a share of t.Difficulty (strict)", "SufficientlyHeavierThan returns "+joinShort(as)+": the relation must be the strict comparison of s.TotalWork with t.TotalWork plus a margin derived from t.Difficulty, otherwise two states can each be 'heavier' than the other"))
	} else {
		c.Undecided("heavier-strict", "SufficientlyHeavierThan", "", "anchor does not resolve")
	}

	c13CarryChain(c)
	// (1) writers of the PoW fields
	pow := map[string]bool{"Index": true, "PrevTimestamps": true, "Depth": true, "ChildTarget": true, "OakTime": true, "OakTarget": true, "TotalWork": true, "Difficulty": true, "OakWork": true}
	allowed := map[string]string{
		"consensus.ApplyHeader":            "the one place the proof-of-work state advances",
		"(consensus.State).DecodeFrom":     "decoding",
		"(consensus.Network).GenesisState": "genesis construction",
	}
	writers := map[string]bool{}
	for _, fn := range SortedFuncs(c.P.AllFuncs()) {
		if !c.P.InModule(fn) || fn.Synthetic != "" || fn.Pkg == nil || relPkg(fn.Pkg.Pkg) != "consensus" {
			continue // other packages only build scratch states for hashing
		}
		for f := range pow {
			for _, st := range fieldStores(fn, f) {
				fa := st.Addr.(*ssa.FieldAddr)
				if typeName(fa.X.Type()) != "consensus.State" {
					continue
				}
				name := FuncName(fn)
				if strings.Contains(name, "JSON") {
					continue
				}
				// a store into a by-value local copy that does not flow to a result is not a state write
				if al, ok := ge.pv.resolve(fa.X).(*ssa.Alloc); ok && !allocEscapes(al) {
					c.Info("pow-writers", name+":"+f, c.P.Pos(st.Pos()), "store into a local copy of State that is not returned (scratch value)")
					continue
				}
				writers[name] = true
				_, ok := allowed[name]
				if !ok {
					if owner, isHelper := c.P.HelperOf(fn, func(n string) bool { _, a := allowed[n]; return a }); isHelper {
						writers[owner] = true
						c.OK("pow-writers", owner+":helper:"+f, c.P.Pos(st.Pos()), name+" is called only from the allowed writer "+owner)
						continue
					}
				}
				why := "allowed writer: " + allowed[name]
				if !ok || name == "consensus.ApplyHeader" {
					// the property: header-only and full-block application advance the proof-of-work state identically. A
					// writer is fine exactly if BOTH ways execute it on every normal path (ApplyHeader itself, or a common
					// core both call).
					ah, ab := c.P.Func("consensus.ApplyHeader"), c.P.Func(CAB)
					okH, okB := reachesOnEveryPath(c.P, ah, fn, 0), reachesOnEveryPath(c.P, ab, fn, 0)
					ok = okH && okB
					why = "executed on every normal path of both ApplyHeader and ApplyBlock"
					if !ok {
						c.Fail("pow-writers", name+":"+f, c.P.Pos(st.Pos()), name+" writes State."+f+" but is "+ifElse(okH, "", "not ")+"executed on every path of ApplyHeader and "+ifElse(okB, "", "not ")+"on every path of ApplyBlock: proof-of-work state must advance through code common to both, otherwise applying headers and applying full blocks diverge")
						continue
					}
				}
				c.Check(ok, "pow-writers", name+":"+f, c.P.Pos(st.Pos()), why)
			}
		}
	}
	nw := 0
	for w := range writers {
		if _, exempt := allowed[w]; !exempt || w == "consensus.ApplyHeader" {
			nw++
		}
	}
	c.Check(nw >= 1, "pow-writers", "ApplyHeader-writes", "", fmt.Sprintf("%d function(s) advance the proof-of-work fields, all on the path common to ApplyHeader and ApplyBlock", nw))
	// ApplyBlock returns ApplyHeader(...)
	if fn := c.P.Func(CAB); fn != nil {
		as := ge.ReturnAtoms(fn, 0)
		ok := len(as) == 1 && mustRe(pat("call consensus.ApplyHeader({consensus.State}, call (types.Block).Header({types.Block}), {time.Time})")).MatchString(as[0])
		if !ok && len(as) == 1 {
			// or the result of the common core that ApplyHeader returns as well (a writer of the proof-of-work fields)
			if m := mustRe(`^call (consensus\.\w+)\(\{consensus\.State\}, `).FindStringSubmatch(as[0]); m != nil && writers[m[1]] {
				if ah := c.P.Func("consensus.ApplyHeader"); ah != nil {
					hs := ge.ReturnAtoms(ah, 0)
					ok = len(hs) == 1 && strings.HasPrefix(hs[0], "call "+m[1]+"({consensus.State}, ")
				}
			}
		}
		c.Check(ok, "headers-equal-blocks", "ApplyBlock-returns-ApplyHeader", c.P.Pos(fn.Pos()), ifElse(ok, "consensus.ApplyBlock returns ApplyHeader(s, b.Header(), targetTimestamp)", "consensus.ApplyBlock returns "+joinShort(as)+": header-only and full-block application can diverge"))
		// ApplyHeader must come after the non-PoW updates: no store to a State field after the call on the returned value
		cs := ge.Calls(fn, nil, nil, nil, 0, map[*ssa.Function]int{})
		var callBlock *ssa.BasicBlock
		for _, cf := range cs {
			if cf.Callee != nil && (FuncName(cf.Callee) == "consensus.ApplyHeader" || writers[FuncName(cf.Callee)]) && len(cf.Chain) == 1 {
				for _, b := range fn.Blocks {
					for _, in := range b.Instrs {
						if in.Pos() == cf.Pos {
							callBlock = b
						}
					}
				}
			}
		}
		c.Check(callBlock != nil && onEveryNormalPath(fn, callBlock), "headers-equal-blocks", "ApplyHeader-on-every-path", c.P.Pos(fn.Pos()), "ApplyHeader is called on every normal path of consensus.ApplyBlock")
	} else {
		c.Undecided("headers-equal-blocks", "anchor", "", "consensus.ApplyBlock does not resolve")
	}
	// (3) era dispatch + PoWTarget
	if fn := c.P.Func("consensus.(State).PoWTarget"); fn != nil {
		as := ge.ReturnAtoms(fn, 0)
		sort.Strings(as)
		ok := len(as) == 2 && mustRe(pat("call consensus.%ID%({consensus.State}.Difficulty.n)")).MatchString(as[0]) && as[1] == "{consensus.State}.ChildTarget"
		c.Check(ok, "era-dispatch", "PoWTarget-returns", c.P.Pos(fn.Pos()), ifElse(ok, "PoWTarget = ChildTarget before the final cut, inverse of Difficulty afterwards", "PoWTarget returns "+joinShort(as)+": the target a header must meet is not the recorded child target of its era"))
		// which value is returned on which side of the final cut height (whatever the spelling of the test)
		chRe, cutRe := mustRe(pat("%CH%")), mustRe(pat("%NET%.HardforkV2.FinalCutHeight"))
		fi := ge.info(fn)
		bad, seen := "", 0
		for _, r := range returnsOf(fn) {
			if len(r.Results) != 1 {
				continue
			}
			saved := ge.pv.loadCtx
			ge.pv.loadCtx = []ssa.Instruction{r}
			a := ge.pv.Atom(r.Results[0], nil)
			ge.pv.loadCtx = saved
			side := ""
			for _, cd := range ge.domConds(fi, r.Block(), nil) {
				l, op, rr := cd.L, cd.Op, cd.R
				if cutRe.MatchString(l) && chRe.MatchString(rr) {
					l, rr, op = rr, l, flipOp[op]
				}
				if chRe.MatchString(l) && cutRe.MatchString(rr) {
					side = op
				}
			}
			switch {
			case a == "{consensus.State}.ChildTarget":
				seen++
				if side != "<" {
					bad = "ChildTarget is returned where childHeight " + side + " FinalCutHeight"
				}
			default:
				seen++
				if side != ">=" {
					bad = short(a) + " is returned where childHeight " + side + " FinalCutHeight"
				}
			}
		}
		okEra := bad == "" && seen == 2
		c.Check(okEra, "era-dispatch", "PoWTarget-era", c.P.Pos(fn.Pos()), ifElse(okEra, "the recorded child target is returned strictly before the final cut height, the inverse of Difficulty from it on", ifElse(bad != "", bad, fmt.Sprintf("%d returns", seen))+" — the recorded target is authoritative until the final cut height"))
	} else {
		c.Undecided("era-dispatch", "PoWTarget", "", "(State).PoWTarget does not resolve")
	}
	c13Dispatch(c, ge)
	c13NoDivByZero(c, ge)
}

// c13NoDivByZero: "applying headers never fails": no integer division reachable from ApplyHeader can divide
// by zero (constant divisor, a dominating non-zero test, or max(x, K>=1)). Floating-point and math/big division
// do not panic and are not sinks.
func c13NoDivByZero(c *Ctx, ge *GuardEngine) {
	fn := c.P.Func("consensus.ApplyHeader")
	if fn == nil {
		c.Undecided("apply-total", "anchor", "", "consensus.ApplyHeader does not resolve")
		return
	}
	n := 0
	seen := map[string]bool{}
	for _, s := range ge.Sinks(fn, nil, nil, nil, 0, map[*ssa.Function]int{}) {
		if s.Kind != "div" {
			continue
		}
		k := sinkKey(s)
		if seen[k] {
			continue
		}
		seen[k] = true
		n++
		ok, why := s.Discharged()
		c.Check(ok, "apply-total", "div:"+k, c.P.Pos(s.Pos), ifElse(ok, "integer division cannot divide by zero: "+why, "integer division by "+short(s.Operand)+" is reachable from ApplyHeader with nothing establishing a non-zero divisor (reached via "+strings.Join(s.Chain, " > ")+"): a header sequence that validation accepts makes applying it panic"))
	}
	c.Check(n >= 4, "apply-total", "inventory", "", fmt.Sprintf("%d integer divisions reachable from ApplyHeader examined", n))
}

// allocEscapes: the local's value is returned, stored elsewhere or passed by address.
func allocEscapes(al *ssa.Alloc) bool {
	for _, r := range *al.Referrers() {
		switch x := r.(type) {
		case *ssa.UnOp: // load of the whole struct
			for _, rr := range *x.Referrers() {
				switch y := rr.(type) {
				case *ssa.Return, *ssa.MakeInterface, *ssa.Phi:
					return true
				case *ssa.Store:
					if _, local := y.Addr.(*ssa.Alloc); !local {
						return true
					}
				}
			}
		case *ssa.Call, *ssa.MakeClosure, *ssa.Store:
			if st, ok := r.(*ssa.Store); ok && st.Addr == al {
				continue
			}
			return true
		}
	}
	return false
}

func c13Dispatch(c *Ctx, ge *GuardEngine) {
	// find the dispatcher: the function ApplyHeader calls whose results are stored into Difficulty/ChildTarget
	ah := c.P.Func("consensus.ApplyHeader")
	if ah == nil {
		c.Undecided("era-dispatch", "ApplyHeader", "", "ApplyHeader does not resolve")
		return
	}
	var disp *ssa.Function
	// ApplyHeader itself, or the common core it calls (the function that stores Difficulty)
	cands := []*ssa.Function{ah}
	for _, b := range ah.Blocks {
		for _, in := range b.Instrs {
			if call, ok := in.(*ssa.Call); ok {
				if g := call.Call.StaticCallee(); g != nil && c.P.InModule(g) && g.Pkg == ah.Pkg {
					cands = append(cands, g)
				}
			}
		}
	}
	for _, cf := range cands {
		for _, st := range fieldStores(cf, "Difficulty") {
			if ex, ok := st.Val.(*ssa.Extract); ok {
				if call, ok := ex.Tuple.(*ssa.Call); ok && disp == nil {
					disp = call.Call.StaticCallee()
				}
			}
		}
	}
	if disp == nil {
		c.Undecided("era-dispatch", "dispatcher", c.P.Pos(ah.Pos()), "ApplyHeader does not take Difficulty from a module call")
		return
	}
	gs := ge.Guards(disp, nil, nil, nil, 0, map[*ssa.Function]int{})
	for _, h := range []string{"AllowHeight", "FinalCutHeight"} {
		r := req("dispatch-on-"+h, FuncName(disp), "%CH%", opLT, "%NET%.HardforkV2."+h, "the difficulty algorithm is chosen by the child height against the "+h, "%CH% >= %NET%.HardforkV2.AllowHeight")
		r.Weak = true
		// a dispatcher has no rejecting side: "x < H" on one edge and "x >= H" on the other are the same partition
		// (what must not move is the boundary: <= / > would shift the era by one block)
		r.Ops = []string{"<", ">="}
		ge.CheckReq(c, "era-dispatch", r, gs)
	}
	rets := ge.ReturnAtoms(disp, 0)
	callees := map[string]bool{}
	for _, a := range rets {
		for _, m := range mustRe(`call consensus\.(\w+)\(\{consensus\.State\}, \{time\.Time\}`).FindAllStringSubmatch(a, -1) {
			callees[m[1]] = true
		}
	}
	c.Check(len(rets) >= 1 && len(callees) == 3, "era-dispatch", "three-eras", c.P.Pos(disp.Pos()), fmt.Sprintf("%d returns using %d distinct era algorithms (total case analysis with default)", len(rets), len(callees)))
	// "target and difficulty are each other's floored inverse, in the direction the era defines": at every return of
	// the dispatcher either the target comes from an era algorithm and the difficulty is Work{invTarget(that target)},
	// or the difficulty comes from an era algorithm and the target is invTarget(that difficulty.n) — of the value
	// returned, not of the previous state's
	if rets1 := ge.ReturnAtoms(disp, 1); len(rets1) == len(rets) && disp.Signature.Results().Len() == 2 {
		bad := ""
		for k := range rets {
			a0, a1 := rets[k], rets1[k]
			okPair := false
			const inv = "call consensus.invTarget("
			if strings.HasPrefix(a0, "lit{n: "+inv) && strings.HasSuffix(a0, ")}") {
				okPair = strings.TrimSuffix(strings.TrimPrefix(a0, "lit{n: "+inv), ")}") == a1
			} else if strings.HasPrefix(a1, inv) && strings.HasSuffix(a1, ")") {
				s0 := map[string]bool{}
				for _, x := range splitPhi(a0) {
					s0[x] = true
				}
				inner := splitPhi(strings.TrimSuffix(strings.TrimPrefix(a1, inv), ")"))
				okPair = len(inner) == len(s0)
				for _, x := range inner {
					if !strings.HasSuffix(x, ".n") || !s0[strings.TrimSuffix(x, ".n")] {
						okPair = false
					}
				}
			}
			if !okPair {
				bad = "returns difficulty " + a0 + " with target " + a1
			}
		}
		c.Check(bad == "", "era-dispatch", "inverse-pairing", c.P.Pos(disp.Pos()), ifElse(bad == "", "at every return the target is the inverse of the returned difficulty or the difficulty the inverse of the returned target", "the dispatcher "+bad+": the recorded target and difficulty are no longer each other's inverse"))
	} else {
		c.Undecided("era-dispatch", "inverse-pairing", c.P.Pos(disp.Pos()), "the dispatcher does not return (difficulty, target)")
	}
	// (4) clamp shape of each era algorithm
	for name := range callees {
		fn := c.P.SSAPackage("consensus").Func(name)
		if fn == nil {
			continue
		}
		as := ge.ReturnAtoms(fn, 0)
		joined := strings.Join(as, " | ")
		isTarget := typeName(fn.Signature.Results().At(0).Type()) == "types.BlockID"
		switch {
		case !isTarget && !strings.Contains(joined, "const:250))"):
			// final cut: outermost lower clamp against a package-level positive constant
			ok := len(as) == 1 && mustRe(pat("call (consensus.Work).%ID%(…, global consensus.%ID%)")).MatchString(as[0])
			c.Check(ok, "clamp-shape", name+":floor", c.P.Pos(fn.Pos()), ifElse(ok, "the returned difficulty passes through a lower clamp against a positive constant (never zero)", "the final-cut adjustment returns "+joinShort(as)+" without an outer floor: difficulty can reach zero"))
			okAdj := strings.Contains(joined, "call (consensus.Work).sub({consensus.State}.Difficulty") && strings.Contains(joined, "call (consensus.Work).add({consensus.State}.Difficulty")
			c.Check(okAdj, "clamp-shape", name+":adjust", c.P.Pos(fn.Pos()), "the new difficulty is clamped between Difficulty - maxAdjust and Difficulty + maxAdjust")
		case !isTarget:
			ok := strings.Contains(joined, "call (consensus.Work).add({consensus.State}.Difficulty, call (consensus.Work).div64({consensus.State}.Difficulty, const:250))")
			c.Check(ok, "clamp-shape", name+":adjust", c.P.Pos(fn.Pos()), "v2 era: the returned difficulty is one of: computed value, Difficulty - Difficulty/250, Difficulty + Difficulty/250")
		default:
			lo := mustRe(`call consensus\.\w+\((\{consensus\.State\}\.ChildTarget, )?const:1004, const:1000(, \{consensus\.State\}\.ChildTarget)?\)`).MatchString(joined)
			hi := mustRe(`call consensus\.\w+\((\{consensus\.State\}\.ChildTarget, )?const:1000, const:1004(, \{consensus\.State\}\.ChildTarget)?\)`).MatchString(joined)
			c.Check(lo && hi, "clamp-shape", name+":adjust", c.P.Pos(fn.Pos()), ifElse(lo && hi, "Oak era: the returned target is clamped to ChildTarget*1004/1000 and ChildTarget*1000/1004", "Oak-era adjustment returns "+joinShort(as)+" without the 0.4% clamps"))
			// the unclamped return is only at the ASIC reset height
			gs := ge.Guards(fn, nil, nil, nil, 0, map[*ssa.Function]int{})
			r := req(name+":asic-reset", FuncName(fn), "%CH%", opEQ, "%NET%.HardforkASIC.Height", "the one scheduled reset is exactly at the ASIC hardfork height", "%CH% > %NET%.HardforkOak.Height")
			r.Weak = true
			ge.CheckReq(c, "clamp-shape", r, gs)
		}
	}
	c.Min("clamp-shape", 4)
}

// reachesOnEveryPath: every normal path of from executes target (from == target, or a call on every path to a
// function that does).
func reachesOnEveryPath(p *Program, from, target *ssa.Function, depth int) bool {
	if from == nil || target == nil || depth > 3 {
		return false
	}
	if from == target {
		return true
	}
	for _, b := range from.Blocks {
		for _, in := range b.Instrs {
			call, ok := in.(*ssa.Call)
			if !ok {
				continue
			}
			g := call.Call.StaticCallee()
			if g == nil || !p.InModule(g) {
				continue
			}
			if (g == target || reachesOnEveryPath(p, g, target, depth+1)) && onEveryNormalPath(from, b) {
				return true
			}
		}
	}
	return false
}
