package main

// E2: provenance atoms. An atom is a canonical string describing where an SSA value comes from:
// a type-rooted access path ({types.Transaction}.SiacoinInputs[*].ParentID), a call with its
// argument atoms, a constant, or a join of alternatives.

import (
	"fmt"
	"go/constant"
	"go/token"
	"go/types"
	"regexp"
	"sort"
	"strconv"
	"strings"

	"golang.org/x/tools/go/ssa"
)

type Env struct {
	params   map[*ssa.Parameter]string
	freevars map[*ssa.FreeVar]string
	// argument values the parameters are bound to, with the caller's environment (so that engines that need more
	// than the atom — the affine forms — can look through a call)
	paramVals map[*ssa.Parameter]boundVal
}

type boundVal struct {
	v   ssa.Value
	env *Env
}

type Prov struct {
	p           *Program
	closures    map[*ssa.Function]*ssa.MakeClosure // closure fn -> its (unique) MakeClosure
	visiting    map[ssa.Value]bool
	depth       int
	CopyIsFresh bool // effect analysis: Copy()/Clone() results are fresh memory, not the argument
	allocDepth  map[ssa.Value]int
	loadCtx     []ssa.Instruction // the load instruction(s) through which the current value is read
	expansions  map[string]string // atom of a call to a single-expression module helper -> atom of its body
	reachMemo   map[[2]*ssa.BasicBlock]bool
	tables      [][]string // see tableOf: rows of local literal tables, as lit{...} atoms
	tableIDs    map[string]int
	globalConst map[*ssa.Global]*ssa.Const // see constGlobal
	globalScan  bool
}

// storeReaches: can the store instruction execute before the load (flow-sensitivity for locals)?
func (pv *Prov) storeReaches(st ssa.Instruction, ld ssa.Instruction) bool {
	sb, lb := st.Block(), ld.Block()
	if sb == nil || lb == nil || sb.Parent() != lb.Parent() {
		return true
	}
	if sb == lb {
		si, li := -1, -1
		for i, in := range sb.Instrs {
			if in == st {
				si = i
			}
			if in == ld {
				li = i
			}
		}
		if si < li {
			return true
		}
		// later in the same block: only through a cycle
	}
	if pv.reachMemo == nil {
		pv.reachMemo = map[[2]*ssa.BasicBlock]bool{}
	}
	k := [2]*ssa.BasicBlock{sb, lb}
	if r, ok := pv.reachMemo[k]; ok {
		return r
	}
	seen := map[*ssa.BasicBlock]bool{}
	stack := append([]*ssa.BasicBlock{}, sb.Succs...)
	res := false
	for len(stack) > 0 {
		x := stack[len(stack)-1]
		stack = stack[:len(stack)-1]
		if x == lb {
			res = true
			break
		}
		if seen[x] {
			continue
		}
		seen[x] = true
		stack = append(stack, x.Succs...)
	}
	pv.reachMemo[k] = res
	return res
}

func NewProv(p *Program) *Prov {
	pv := &Prov{p: p, closures: map[*ssa.Function]*ssa.MakeClosure{}, visiting: map[ssa.Value]bool{}}
	for fn := range p.AllFuncs() {
		for _, b := range fn.Blocks {
			for _, in := range b.Instrs {
				if mc, ok := in.(*ssa.MakeClosure); ok {
					if f, ok := mc.Fn.(*ssa.Function); ok {
						pv.closures[f] = mc
					}
				}
			}
		}
	}
	return pv
}

func paramName(p *ssa.Parameter) string {
	fn := p.Parent()
	tn := typeName(p.Type())
	n, idx := 0, 0
	for _, q := range fn.Params {
		if typeName(q.Type()) == tn {
			n++
			if q == p {
				idx = n
			}
		}
	}
	if idx > 1 {
		return fmt.Sprintf("{%s#%d}", tn, idx)
	}
	return "{" + tn + "}"
}

// resolve follows a FreeVar to the value bound at the closure's creation site.
func (pv *Prov) resolve(v ssa.Value) ssa.Value {
	for i := 0; i < 8; i++ {
		fv, ok := v.(*ssa.FreeVar)
		if !ok {
			return v
		}
		mc := pv.closures[fv.Parent()]
		if mc == nil {
			return v
		}
		idx := -1
		for j, f := range fv.Parent().FreeVars {
			if f == fv {
				idx = j
			}
		}
		if idx < 0 || idx >= len(mc.Bindings) {
			return v
		}
		v = mc.Bindings[idx]
	}
	return v
}

func joinAtoms(as []string) string {
	set := map[string]bool{}
	for _, a := range as {
		if a == "" || a == "…" {
			continue
		}
		if strings.HasPrefix(a, "phi(") && strings.HasSuffix(a, ")") {
			for _, s := range splitTop(a[4:len(a)-1], '|') {
				set[s] = true
			}
			continue
		}
		set[a] = true
	}
	if len(set) == 0 {
		return "…"
	}
	out := make([]string, 0, len(set))
	for a := range set {
		out = append(out, a)
	}
	sort.Strings(out)
	if len(out) == 1 {
		return out[0]
	}
	return "phi(" + strings.Join(out, "|") + ")"
}

// splitTop splits s at sep occurring at nesting depth 0.
func splitTop(s string, sep byte) []string {
	var out []string
	depth, start := 0, 0
	for i := 0; i < len(s); i++ {
		switch s[i] {
		case '(', '[', '{':
			depth++
		case ')', ']', '}':
			depth--
		default:
			if s[i] == sep && depth == 0 {
				out = append(out, s[start:i])
				start = i + 1
			}
		}
	}
	return append(out, s[start:])
}

// projectLit: lit{F: x, G: y} selected by F is x. Only applied to by-value parameters bound to a literal built at the
// call site (a parameter-grouping struct must not hide where its members come from); never to locals whose address
// may have been handed out.
func projectLit(a, name string) (string, bool) {
	if !strings.HasPrefix(a, "lit{") || !strings.HasSuffix(a, "}") {
		return "", false
	}
	for _, part := range splitTop(a[4:len(a)-1], ',') {
		part = strings.TrimSpace(part)
		if strings.HasPrefix(part, name+": ") {
			return strings.TrimPrefix(part, name+": "), true
		}
	}
	return "", false
}

func (pv *Prov) litParam(v ssa.Value, env *Env) (string, bool) {
	if env == nil {
		return "", false
	}
	prm, ok := pv.resolve(v).(*ssa.Parameter)
	if !ok {
		// a by-value struct parameter spilled to a local so that its address can be taken
		al, isAlloc := pv.resolve(v).(*ssa.Alloc)
		if !isAlloc {
			return "", false
		}
		n := 0
		for _, r := range *al.Referrers() {
			if st, isSt := r.(*ssa.Store); isSt && st.Addr == ssa.Value(al) {
				n++
				prm, _ = st.Val.(*ssa.Parameter)
			}
		}
		if n != 1 || prm == nil {
			return "", false
		}
	}
	if _, isPtr := prm.Type().Underlying().(*types.Pointer); isPtr {
		return "", false
	}
	a, ok := env.params[prm]
	return a, ok && strings.HasPrefix(a, "lit{")
}

// withSuffix distributes a path suffix over a join.
func withSuffix(a, suffix string) string {
	if strings.HasPrefix(a, "phi(") && strings.HasSuffix(a, ")") {
		parts := splitTop(a[4:len(a)-1], '|')
		for i := range parts {
			parts[i] += suffix
		}
		return joinAtoms(parts)
	}
	return a + suffix
}

// storesTo collects the values stored into an alloc (optionally into one field of it), including
// stores made by closures that capture the alloc.
func (pv *Prov) storesTo(al *ssa.Alloc, field int) (whole []ssa.Value, fieldVals []ssa.Value) {
	var wholeSt, fieldSt []*ssa.Store
	defer func() {
		// kill analysis: a store that dominates the load and cannot be followed by store S makes S dead
		n := len(pv.loadCtx)
		if n == 0 {
			return
		}
		ld := pv.loadCtx[n-1]
		if len(wholeSt) == len(whole) && len(whole) > 1 {
			whole = pv.killDead(wholeSt, whole, ld)
		}
		if len(fieldSt) == len(fieldVals) && len(fieldVals) > 1 {
			fieldVals = pv.killDead(fieldSt, fieldVals, ld)
		}
		// a field store that dominates the load kills earlier whole-struct stores for that field
		if field >= 0 && len(fieldSt) > 0 && len(wholeSt) == len(whole) && len(whole) > 0 && ld.Block() != nil {
			var latest *ssa.Store
			for _, s := range fieldSt {
				if s.Block() == nil || s.Block().Parent() != ld.Block().Parent() {
					continue
				}
				if (s.Block() == ld.Block() && instrBefore(s, ld)) || (s.Block() != ld.Block() && s.Block().Dominates(ld.Block())) {
					latest = s
				}
			}
			if latest != nil {
				var keep []ssa.Value
				for i, w := range wholeSt {
					if pv.storeReaches(latest, w) && !(w.Block() == latest.Block() && instrBefore(w, latest) && !pv.blockInCycle(w.Block())) {
						keep = append(keep, whole[i])
					}
				}
				whole = keep
			}
		}
	}()
	var scan func(refs []ssa.Instruction, addr ssa.Value)
	scan = func(refs []ssa.Instruction, addr ssa.Value) {
		for _, r := range refs {
			switch r := r.(type) {
			case *ssa.Store:
				if r.Addr == addr {
					if n := len(pv.loadCtx); n > 0 && !pv.storeReaches(r, pv.loadCtx[n-1]) {
						continue
					}
					whole = append(whole, r.Val)
					wholeSt = append(wholeSt, r)
				}
			case *ssa.FieldAddr:
				if r.X == addr && field >= 0 && r.Field == field {
					for _, rr := range *r.Referrers() {
						if st, ok := rr.(*ssa.Store); ok && st.Addr == r {
							if n := len(pv.loadCtx); n > 0 && !pv.storeReaches(st, pv.loadCtx[n-1]) {
								continue
							}
							fieldVals = append(fieldVals, st.Val)
							fieldSt = append(fieldSt, st)
						}
					}
				}
			case *ssa.Slice:
				if r.X == addr {
					for _, rr := range *r.Referrers() {
						if call, ok := rr.(*ssa.Call); ok {
							if b, ok := call.Call.Value.(*ssa.Builtin); ok && b.Name() == "copy" && len(call.Call.Args) == 2 && call.Call.Args[0] == r {
								whole = append(whole, call.Call.Args[1])
							}
						}
					}
				}
			case *ssa.MakeClosure:
				fn, _ := r.Fn.(*ssa.Function)
				if fn == nil {
					continue
				}
				for j, b := range r.Bindings {
					if b == addr && j < len(fn.FreeVars) {
						scan(*fn.FreeVars[j].Referrers(), fn.FreeVars[j])
					}
				}
			}
		}
	}
	scan(*al.Referrers(), al)
	return
}

// instrBefore: a and b in the same block, a earlier.
func instrBefore(a, b ssa.Instruction) bool {
	if a.Block() != b.Block() {
		return false
	}
	for _, in := range a.Block().Instrs {
		if in == a {
			return true
		}
		if in == b {
			return false
		}
	}
	return false
}

func (pv *Prov) killDead(sts []*ssa.Store, vals []ssa.Value, ld ssa.Instruction) []ssa.Value {
	if ld.Block() == nil {
		return vals
	}
	// the latest store that dominates the load
	var latest *ssa.Store
	for _, s := range sts {
		if s.Block() == nil || s.Block().Parent() != ld.Block().Parent() {
			return vals
		}
		dom := (s.Block() == ld.Block() && instrBefore(s, ld)) || (s.Block() != ld.Block() && s.Block().Dominates(ld.Block()))
		if !dom {
			continue
		}
		if latest == nil || (latest.Block() == s.Block() && instrBefore(latest, s)) || (latest.Block() != s.Block() && latest.Block().Dominates(s.Block())) {
			latest = s
		}
	}
	if latest == nil {
		return vals
	}
	var out []ssa.Value
	for i, s := range sts {
		if s == latest || pv.storeReaches(latest, s) && !(s.Block() == latest.Block() && instrBefore(s, latest) && !pv.blockInCycle(s.Block())) {
			out = append(out, vals[i])
		}
	}
	if len(out) == 0 {
		return vals
	}
	return out
}

func (pv *Prov) blockInCycle(b *ssa.BasicBlock) bool {
	seen := map[*ssa.BasicBlock]bool{}
	st := append([]*ssa.BasicBlock{}, b.Succs...)
	for len(st) > 0 {
		x := st[len(st)-1]
		st = st[:len(st)-1]
		if x == b {
			return true
		}
		if seen[x] {
			continue
		}
		seen[x] = true
		st = append(st, x.Succs...)
	}
	return false
}

func isInduction(v ssa.Value) bool {
	phi, ok := v.(*ssa.Phi)
	if !ok {
		return false
	}
	for _, e := range phi.Edges {
		if bo, ok := e.(*ssa.BinOp); ok && bo.Op == token.ADD {
			if c, isC := bo.Y.(*ssa.Const); isC && bo.X == phi && c.Value != nil && c.Value.ExactString() == "1" {
				return true
			}
		}
	}
	return false
}

// pairsInner: the induction variable starts at outer+1 where outer is itself an induction variable over all
// elements (the all-pairs idiom).
func pairsInner(phi *ssa.Phi) bool {
	for i, e := range phi.Edges {
		if phi.Block().Dominates(phi.Block().Preds[i]) {
			continue
		}
		bo, ok := e.(*ssa.BinOp)
		if !ok || bo.Op != token.ADD {
			return false
		}
		k, ok := bo.Y.(*ssa.Const)
		if !ok || k.Value == nil || k.Value.ExactString() != "1" {
			return false
		}
		outer := bo.X
		// rotated range form: outer index is (phi + 1) with phi starting at -1
		if ob, ok := outer.(*ssa.BinOp); ok && ob.Op == token.ADD {
			if ok1, isC := ob.Y.(*ssa.Const); isC && ok1.Value != nil && ok1.Value.ExactString() == "1" {
				if op, isPhi := ob.X.(*ssa.Phi); isPhi && isInduction(op) {
					if s0, known := inductionStart(op); known && s0 == -1 {
						continue
					}
				}
			}
			return false
		}
		op, isPhi := outer.(*ssa.Phi)
		if !isPhi || !isInduction(op) {
			return false
		}
		if s0, known := inductionStart(op); !known || s0 != 0 {
			return false
		}
	}
	return true
}

// inductionStart: the constant an induction variable starts from (all non-back edges agree).
func inductionStart(phi *ssa.Phi) (int64, bool) {
	var start int64
	seen := false
	for i, e := range phi.Edges {
		if phi.Block().Dominates(phi.Block().Preds[i]) {
			continue // back edge
		}
		k, ok := e.(*ssa.Const)
		if !ok || k.Value == nil {
			return 0, false
		}
		n, exact := constant.Int64Val(k.Value)
		if !exact || (seen && n != start) {
			return 0, false
		}
		start, seen = n, true
	}
	return start, seen
}

func (pv *Prov) indexAtom(idx ssa.Value, env *Env) string {
	if c, ok := idx.(*ssa.Const); ok && c.Value != nil {
		return c.Value.ExactString()
	}
	// "[*]" quantifies over EVERY element: only an induction variable that starts at the first element qualifies
	// (i from 0; or the rotated range form, -1 incremented before use). A loop that starts later ("for i := 1; …")
	// or an offset index (x[i-1]) visits only part of the collection.
	star := func(start int64, known bool) string {
		if known && start == 0 {
			return "*"
		}
		if known {
			return fmt.Sprintf("*from%d", start)
		}
		return "*from?"
	}
	if isInduction(idx) {
		s0, ok := inductionStart(idx.(*ssa.Phi))
		if !ok && pairsInner(idx.(*ssa.Phi)) {
			return "*" // for i := range x { for j := i+1; j < len(x); j++ }: every unordered pair is visited
		}
		return star(s0, ok)
	}
	// conversion of an induction variable, or the incremented induction variable of a range loop
	if cv, ok := idx.(*ssa.Convert); ok && isInduction(cv.X) {
		s0, ok := inductionStart(cv.X.(*ssa.Phi))
		return star(s0, ok)
	}
	if bo, ok := idx.(*ssa.BinOp); ok && (bo.Op == token.ADD || bo.Op == token.SUB) {
		if k, isC := bo.Y.(*ssa.Const); isC && isInduction(bo.X) && k.Value != nil {
			s0, ok := inductionStart(bo.X.(*ssa.Phi))
			d, ok2 := constant.Int64Val(k.Value)
			if bo.Op == token.SUB {
				d = -d
			}
			return star(s0+d, ok && ok2)
		}
	}
	a := pv.Atom(idx, env)
	if a == "idx" {
		return "*"
	}
	return a
}

func calleeName(c *ssa.CallCommon) string {
	if c.IsInvoke() {
		return "invoke " + typeName(c.Value.Type()) + "." + c.Method.Name()
	}
	switch f := c.Value.(type) {
	case *ssa.Function:
		return FuncName(f)
	case *ssa.Builtin:
		return f.Name()
	case *ssa.MakeClosure:
		if fn, ok := f.Fn.(*ssa.Function); ok {
			return "closure " + fn.Name()
		}
	}
	return "dyn"
}

// Atom computes the provenance atom of v.
func (pv *Prov) Atom(v ssa.Value, env *Env) string {
	if v == nil {
		return "?"
	}
	if pv.visiting[v] {
		// a local variable may legitimately be read again while one of its stored values is being
		// resolved (s = f(s)): allow one re-entry, flow-sensitivity makes the inner read see earlier stores only
		if _, isAlloc := v.(*ssa.Alloc); !isAlloc || pv.allocDepth[v] >= 2 {
			return "…"
		}
	}
	if _, isAlloc := v.(*ssa.Alloc); isAlloc {
		if pv.allocDepth == nil {
			pv.allocDepth = map[ssa.Value]int{}
		}
		pv.allocDepth[v]++
		defer func() { pv.allocDepth[v]-- }()
	}
	pv.depth++
	defer func() { pv.depth-- }()
	if pv.depth > 60 {
		return "deep"
	}
	wasVisiting := pv.visiting[v]
	pv.visiting[v] = true
	defer func() {
		if !wasVisiting {
			delete(pv.visiting, v)
		}
	}()

	switch x := v.(type) {
	case *ssa.Parameter:
		if env != nil {
			if a, ok := env.params[x]; ok {
				return a
			}
		}
		return paramName(x)
	case *ssa.FreeVar:
		if env != nil {
			if a, ok := env.freevars[x]; ok {
				return a
			}
		}
		r := pv.resolve(x)
		if r == x {
			return "freevar:" + x.Name()
		}
		return pv.Atom(r, env)
	case *ssa.Const:
		if x.Value == nil {
			if _, ok := x.Type().Underlying().(*types.Struct); ok {
				return "zero"
			}
			if _, ok := x.Type().Underlying().(*types.Array); ok {
				return "zero"
			}
			return "nil"
		}
		if x.Value.Kind() == constant.String {
			return "const:" + x.Value.ExactString()
		}
		return "const:" + x.Value.ExactString()
	case *ssa.Alloc:
		if id, ok := pv.tableOf(x, env); ok {
			return fmt.Sprintf("tbl#%d", id)
		}
		whole, _ := pv.storesTo(x, -1)
		if len(whole) == 0 {
			// composite literal built field by field
			if st, ok := x.Type().Underlying().(*types.Pointer).Elem().Underlying().(*types.Struct); ok {
				var parts []string
				for i := 0; i < st.NumFields(); i++ {
					_, fv := pv.storesTo(x, i)
					if len(fv) == 0 {
						continue
					}
					var as []string
					for _, f := range fv {
						as = append(as, pv.Atom(f, env))
					}
					parts = append(parts, st.Field(i).Name()+": "+joinAtoms(as))
				}
				if len(parts) > 0 {
					return "lit{" + strings.Join(parts, ", ") + "}"
				}
			}
			return "zero"
		}
		var as []string
		for _, w := range whole {
			as = append(as, pv.Atom(w, env))
		}
		return joinAtoms(as)
	case *ssa.UnOp:
		switch x.Op {
		case token.MUL:
			pv.loadCtx = append(pv.loadCtx, x)
			defer func() { pv.loadCtx = pv.loadCtx[:len(pv.loadCtx)-1] }()
			return pv.Atom(x.X, env)
		case token.NOT:
			return "!" + pv.Atom(x.X, env)
		case token.SUB:
			return "-" + pv.Atom(x.X, env)
		}
		return x.Op.String() + pv.Atom(x.X, env)
	case *ssa.FieldAddr:
		st, _ := x.X.Type().Underlying().(*types.Pointer).Elem().Underlying().(*types.Struct)
		name := fmt.Sprintf("f%d", x.Field)
		if st != nil && x.Field < st.NumFields() {
			name = st.Field(x.Field).Name()
		}
		if la, ok := pv.litParam(x.X, env); ok {
			if v, ok := projectLit(la, name); ok {
				return v
			}
		}
		base := pv.resolve(x.X)
		if al, ok := base.(*ssa.Alloc); ok {
			whole, fv := pv.storesTo(al, x.Field)
			var as []string
			for _, w := range whole {
				as = append(as, withSuffix(pv.Atom(w, env), "."+name))
			}
			for _, f := range fv {
				as = append(as, pv.Atom(f, env))
			}
			if len(as) == 0 {
				if al.Comment != "" && allocAddressTaken(al) {
					return "$" + al.Comment + "." + name // filled in through its address (e.g. by a decoder)
				}
				return "zero"
			}
			return joinAtoms(as)
		}
		return withSuffix(pv.Atom(x.X, env), "."+name)
	case *ssa.Field:
		st, _ := x.X.Type().Underlying().(*types.Struct)
		name := fmt.Sprintf("f%d", x.Field)
		if st != nil && x.Field < st.NumFields() {
			name = st.Field(x.Field).Name()
		}
		if la, ok := pv.litParam(x.X, env); ok {
			if v, ok := projectLit(la, name); ok {
				return v
			}
		}
		return withSuffix(pv.Atom(x.X, env), "."+name)
	case *ssa.IndexAddr:
		return withSuffix(pv.Atom(x.X, env), "["+pv.indexAtom(x.Index, env)+"]")
	case *ssa.Index:
		return withSuffix(pv.Atom(x.X, env), "["+pv.indexAtom(x.Index, env)+"]")
	case *ssa.Lookup:
		return withSuffix(pv.Atom(x.X, env), "["+pv.Atom(x.Index, env)+"]")
	case *ssa.Extract:
		switch t := x.Tuple.(type) {
		case *ssa.TypeAssert:
			if x.Index == 0 {
				return pv.Atom(t, env)
			}
			return "ok:" + pv.Atom(t, env)
		case *ssa.Lookup:
			if x.Index == 0 {
				return pv.Atom(t, env)
			}
			return "ok:" + pv.Atom(t, env)
		case *ssa.Next:
			rng, _ := t.Iter.(*ssa.Range)
			if rng != nil {
				switch x.Index {
				case 1:
					return "key(" + pv.Atom(rng.X, env) + ")"
				case 2:
					return withSuffix(pv.Atom(rng.X, env), "[*]")
				}
			}
			return "next"
		}
		return fmt.Sprintf("%s#%d", pv.Atom(x.Tuple, env), x.Index)
	case *ssa.Call:
		name := calleeName(&x.Call)
		if name == "dyn" {
			// closure held in a local: resolve through the alloc
			cv := pv.Atom(x.Call.Value, env)
			name = "via " + cv
		}
		var args []string
		if x.Call.IsInvoke() {
			args = append(args, pv.Atom(x.Call.Value, env))
		}
		for _, a := range x.Call.Args {
			args = append(args, pv.Atom(a, env))
		}
		// unexported module functions: the order of their parameters is an internal matter, so arguments are listed
		// in a canonical order (by parameter type, receiver first, ties in source order)
		origArgs := append([]string{}, args...)
		if f := x.Call.StaticCallee(); f != nil && pv.p.InModule(f) && f.Object() != nil && !f.Object().Exported() && f.Parent() == nil && !x.Call.IsInvoke() {
			first := 0
			if f.Signature.Recv() != nil {
				first = 1
			}
			if n := len(args) - first; n > 1 && len(f.Params) == len(args) && !f.Signature.Variadic() {
				idx := make([]int, n)
				for i := range idx {
					idx[i] = first + i
				}
				sort.SliceStable(idx, func(a, b int) bool {
					return typeName(f.Params[idx[a]].Type()) < typeName(f.Params[idx[b]].Type())
				})
				na := append([]string{}, args[:first]...)
				for _, i := range idx {
					na = append(na, args[i])
				}
				args = na
			}
		}
		// single-expression module helpers: remember what the call stands for (matchers may retry with it)
		if f := x.Call.StaticCallee(); f != nil && !pv.CopyIsFresh && pv.p.InModule(f) && len(f.Blocks) == 1 && f.Signature.Results().Len() >= 1 && pv.depth < 40 {
			if ret, ok := f.Blocks[0].Instrs[len(f.Blocks[0].Instrs)-1].(*ssa.Return); ok && len(ret.Results) >= 1 && len(f.Blocks[0].Instrs) <= 16 {
				ne := &Env{params: map[*ssa.Parameter]string{}, freevars: map[*ssa.FreeVar]string{}}
				for i, prm := range f.Params {
					if i < len(origArgs) {
						ne.params[prm] = origArgs[i]
					}
				}
				if len(f.FreeVars) == 0 {
					if pv.expansions == nil {
						pv.expansions = map[string]string{}
					}
					for ri, rv := range ret.Results {
						saved := pv.loadCtx
						pv.loadCtx = nil
						body := pv.Atom(rv, ne)
						pv.loadCtx = saved
						key := "call " + name + "(" + strings.Join(args, ", ") + ")"
						if len(ret.Results) > 1 {
							key += fmt.Sprintf("#%d", ri) // straight-line helper with several results: each component
						}
						pv.expansions[key] = body
					}
				}
			}
		}
		// Share/Copy/Move of an element are identity for provenance (for effect analysis Copy is fresh memory)
		if f := x.Call.StaticCallee(); f != nil && f.Pkg != nil && f.Pkg.Pkg.Path() == modPath+"/types" && len(args) == 1 {
			switch f.Name() {
			case "Share", "Move":
				return args[0]
			case "Copy":
				if pv.CopyIsFresh {
					return "fresh(Copy " + args[0] + ")"
				}
				return args[0]
			}
		}
		if f := x.Call.StaticCallee(); f != nil && pv.CopyIsFresh {
			switch f.String() {
			case "slices.Clone", "bytes.Clone":
				return "fresh(Clone " + strings.Join(args, ",") + ")"
			}
			if strings.HasPrefix(f.String(), "slices.Clone[") {
				return "fresh(Clone " + strings.Join(args, ",") + ")"
			}
		}
		if b, ok := x.Call.Value.(*ssa.Builtin); ok {
			switch b.Name() {
			case "len", "cap":
				return b.Name() + "(" + strings.Join(args, ",") + ")"
			case "append":
				return "append(" + strings.Join(args, ",") + ")"
			}
		}
		return "call " + name + "(" + strings.Join(args, ", ") + ")"
	case *ssa.BinOp:
		if x.Op == token.ADD && isInduction(x.X) {
			if c, ok := x.Y.(*ssa.Const); ok && c.Value != nil && c.Value.ExactString() == "1" {
				return "idx" // the index of a range loop (the induction variable starts at -1)
			}
		}
		return "(" + pv.Atom(x.X, env) + " " + x.Op.String() + " " + pv.Atom(x.Y, env) + ")"
	case *ssa.Convert:
		return pv.Atom(x.X, env)
	case *ssa.ChangeType:
		return pv.Atom(x.X, env)
	case *ssa.ChangeInterface:
		return pv.Atom(x.X, env)
	case *ssa.MakeInterface:
		return pv.Atom(x.X, env)
	case *ssa.SliceToArrayPointer:
		return pv.Atom(x.X, env)
	case *ssa.Slice:
		return pv.Atom(x.X, env)
	case *ssa.TypeAssert:
		if _, isIface := x.AssertedType.Underlying().(*types.Interface); isIface {
			return pv.Atom(x.X, env)
		}
		return withSuffix(pv.Atom(x.X, env), ".("+typeName(x.AssertedType)+")")
	case *ssa.Phi:
		if isInduction(x) {
			return "idx"
		}
		var as []string
		for _, e := range x.Edges {
			as = append(as, pv.Atom(e, env))
		}
		return joinAtoms(as)
	case *ssa.MakeClosure:
		if fn, ok := x.Fn.(*ssa.Function); ok {
			return "closure " + fn.Name()
		}
		return "closure"
	case *ssa.Function:
		return "func " + FuncName(x)
	case *ssa.Global:
		if k := pv.constGlobal(x); k != nil {
			return pv.Atom(k, env) // a scalar package variable that is initialised with a constant and never written again
		}
		return "global " + relPkg(x.Pkg.Pkg) + "." + x.Name()
	case *ssa.MakeSlice, *ssa.MakeMap, *ssa.MakeChan:
		return "make"
	case *ssa.Range:
		return "range(" + pv.Atom(x.X, env) + ")"
	case *ssa.Next:
		return "next"
	}
	return "?" + fmt.Sprintf("%T", v)
}

// addrAtom renders the address path of a field (without looking through stores).
func (pv *Prov) addrAtom(fa *ssa.FieldAddr, env *Env) string {
	st, _ := fa.X.Type().Underlying().(*types.Pointer).Elem().Underlying().(*types.Struct)
	name := fmt.Sprintf("f%d", fa.Field)
	if st != nil && fa.Field < st.NumFields() {
		name = st.Field(fa.Field).Name()
	}
	if inner, ok := fa.X.(*ssa.FieldAddr); ok {
		return pv.addrAtom(inner, env) + "." + name
	}
	return withSuffix(pv.Atom(fa.X, env), "."+name)
}

// allocAddressTaken: the local's address is passed to a call (it may be filled in by the callee).
func allocAddressTaken(al *ssa.Alloc) bool {
	for _, r := range *al.Referrers() {
		switch x := r.(type) {
		case *ssa.Call:
			return true
		case *ssa.MakeInterface:
			_ = x
			return true
		}
	}
	return false
}

// ExpandAll replaces recorded call atoms of single-expression helpers inside s by the atom of the helper's
// body (one level), except helpers that the pattern the caller wants to match names itself.
// Matchers use it to be insensitive to the extraction of small helpers.
func (pv *Prov) ExpandAll(s string, pattern ...string) string {
	keep := func(k string) bool {
		// k = "call <callee>(args)": a helper the pattern names itself (by its full callee text) stays
		head := k
		depth := 0
		for i := 0; i < len(k); i++ {
			if k[i] == '(' {
				if depth == 0 && i > 5 && k[i-1] != ' ' { // the "(" that opens the argument list
					head = k[:i]
					break
				}
				depth++
			} else if k[i] == ')' {
				depth--
			}
		}
		for _, p := range pattern {
			if strings.Contains(strings.ReplaceAll(p, "\\", ""), head+"(") {
				return true
			}
		}
		return false
	}
	for i := 0; i < 3; i++ {
		changed := false
		for k, v := range pv.expansions {
			if keep(k) {
				continue
			}
			if strings.Contains(s, k) {
				s = strings.ReplaceAll(s, k, v)
				changed = true
			}
		}
		if !changed {
			break
		}
	}
	return s
}

// constGlobal: the constant a module package-level variable of basic type holds forever: it is stored exactly
// once (by the package initialiser, a constant) and its address is used for nothing but loads.
func (pv *Prov) constGlobal(g *ssa.Global) *ssa.Const {
	pt, ok := g.Type().Underlying().(*types.Pointer)
	if !ok {
		return nil
	}
	if _, basic := pt.Elem().Underlying().(*types.Basic); !basic {
		return nil
	}
	if !pv.globalScan {
		pv.globalScan = true
		pv.globalConst = map[*ssa.Global]*ssa.Const{}
		stores := map[*ssa.Global]int{}
		escaped := map[*ssa.Global]bool{}
		val := map[*ssa.Global]*ssa.Const{}
		for fn := range pv.p.AllFuncs() {
			if !pv.p.InModule(fn) {
				continue
			}
			for _, b := range fn.Blocks {
				for _, in := range b.Instrs {
					for _, op := range in.Operands(nil) {
						gl, isG := (*op).(*ssa.Global)
						if !isG {
							continue
						}
						switch x := in.(type) {
						case *ssa.Store:
							if x.Addr == ssa.Value(gl) {
								stores[gl]++
								if k, isK := x.Val.(*ssa.Const); isK && fn.Name() == "init" {
									val[gl] = k
								} else {
									escaped[gl] = true
								}
							} else {
								escaped[gl] = true
							}
						case *ssa.UnOp:
							if x.Op != token.MUL {
								escaped[gl] = true
							}
						case *ssa.DebugRef:
						default:
							escaped[gl] = true
						}
					}
				}
			}
		}
		for gl, k := range val {
			if stores[gl] == 1 && !escaped[gl] {
				pv.globalConst[gl] = k
			}
		}
	}
	return pv.globalConst[g]
}

// tableOf: a local array of structs filled row by row through constant indices (a composite literal such as
// "[...]struct{indices []uint64; n int}{{a, len(x)}, {b, len(y)}}") and only read afterwards. A loop over such a
// table states one fact per row; the guard engine expands a condition on "tbl#N[*].field" into its rows.
func (pv *Prov) tableOf(al *ssa.Alloc, env *Env) (int, bool) {
	at, ok := al.Type().Underlying().(*types.Pointer).Elem().Underlying().(*types.Array)
	if !ok || at.Len() == 0 || at.Len() > 64 {
		return 0, false
	}
	if _, isStruct := at.Elem().Underlying().(*types.Struct); !isStruct {
		return 0, false
	}
	rows := make([]string, at.Len())
	filled := 0
	for _, r := range *al.Referrers() {
		switch x := r.(type) {
		case *ssa.IndexAddr:
			k, isConst := x.Index.(*ssa.Const)
			for _, rr := range *x.Referrers() {
				st, isSt := rr.(*ssa.Store)
				if isSt && st.Addr == ssa.Value(x) {
					if !isConst || k.Value == nil {
						return 0, false // written through a variable index
					}
					i, exact := constant.Int64Val(k.Value)
					if !exact || i < 0 || i >= at.Len() || rows[i] != "" {
						return 0, false
					}
					a := pv.Atom(st.Val, env)
					if !strings.HasPrefix(a, "lit{") {
						return 0, false
					}
					rows[i] = a
					filled++
					continue
				}
				switch rr.(type) {
				case *ssa.UnOp, *ssa.FieldAddr, *ssa.DebugRef:
				default:
					return 0, false
				}
			}
		case *ssa.UnOp, *ssa.DebugRef:
		case *ssa.Store:
			if x.Addr == ssa.Value(al) {
				return 0, false // overwritten as a whole
			}
		default:
			return 0, false
		}
	}
	if filled != int(at.Len()) {
		return 0, false
	}
	key := strings.Join(rows, "\x00")
	if pv.tableIDs == nil {
		pv.tableIDs = map[string]int{}
	}
	if id, ok := pv.tableIDs[key]; ok {
		return id, true
	}
	pv.tables = append(pv.tables, rows)
	pv.tableIDs[key] = len(pv.tables) - 1
	return len(pv.tables) - 1, true
}

var tblRefRe = regexp.MustCompile(`tbl#(\d+)\[\*\]\.(\w+)`)

// expandTable: the per-row instances of atoms l and r when they refer to rows of ONE literal table.
func (pv *Prov) expandTable(l, r string) [][2]string {
	ms := tblRefRe.FindAllStringSubmatch(l+" "+r, -1)
	if len(ms) == 0 {
		return nil
	}
	id := ms[0][1]
	for _, m := range ms {
		if m[1] != id {
			return nil
		}
	}
	n, _ := strconv.Atoi(id)
	if n < 0 || n >= len(pv.tables) {
		return nil
	}
	var out [][2]string
	for _, row := range pv.tables[n] {
		ok := true
		sub := func(s string) string {
			return tblRefRe.ReplaceAllStringFunc(s, func(m string) string {
				f := tblRefRe.FindStringSubmatch(m)[2]
				v, found := projectLit(row, f)
				if !found {
					ok = false
					return m
				}
				return v
			})
		}
		a, b := sub(l), sub(r)
		if ok && !strings.Contains(a, "tbl#") && !strings.Contains(b, "tbl#") {
			out = append(out, [2]string{a, b})
		}
	}
	return out
}
